#!/usr/bin/env python3
"""translate.py enums

Reads the Rust sources of /repo (VERIF_REPO overrides) on every run and regenerates

  lean/Deb822Verif/Gen/Enums.lean   plain-data tables of the keyword enumerations
  harness/gen/enums.json            the same rows, for the Rust harness to cross-check against the
                                    real `to_string` / `from_str` (this checks the translator)

For every keyword type: the declared variants, the (variant, printed keyword) rows of its
Display / `From<&T> for String` match, the (accepted keyword, variant) rows of its FromStr match,
how the input is normalised before matching (exact / lower-cased) and what the catch-all arm does
(reject with Err / map to a default variant / wrap the text in a payload variant).

Anything the translator cannot classify is a hard error (exit 1). In that case the generated Lean
file is replaced by one that does not compile, so that `./check` cannot pass on stale tables.
"""
import sys, os, re, json

VERIF = os.path.dirname(os.path.dirname(os.path.abspath(__file__)))
REPO = os.environ.get("VERIF_REPO", "/repo")
GEN_LEAN = os.path.join(VERIF, "lean", "Deb822Verif", "Gen", "Enums.lean")
GEN_JSON = os.path.join(VERIF, "harness", "gen", "enums.json")

# keyword enumerations: every variant is a unit variant
ENUMS = [
    ("Priority", "debian-control/src/fields.rs"),
    ("MultiArch", "debian-control/src/fields.rs"),
    ("Urgency", "debian-control/src/fields.rs"),
    ("VersionConstraint", "debian-control/src/relations.rs"),
    ("OriginCategory", "dep3/src/fields.rs"),
    ("RepositoryType", "apt-sources/src/lib.rs"),
    ("YesNoForce", "apt-sources/src/lib.rs"),
]
# keyword + payload types: unit variants are keywords, one variant carries the remaining text
HYBRIDS = [
    ("Forwarded", "dep3/src/fields.rs"),
]


class TranslateError(Exception):
    pass


def fail(msg):
    raise TranslateError(msg)


# --------------------------------------------------------------------------- Rust scanning

class Src:
    """code  : source with comments blanked (same length)
       mask  : code with the *contents* of string/char literals blanked too (same length),
               used for brace matching and regex searches over structure"""

    def __init__(self, rel):
        self.rel = rel
        self.path = os.path.join(REPO, rel)
        try:
            self.text = open(self.path, encoding="utf-8").read()
        except OSError as e:
            fail(f"cannot read {self.path}: {e}")
        self.code, self.mask = self._scan(self.text)

    def line_of(self, pos):
        return self.text.count("\n", 0, pos) + 1

    @staticmethod
    def _scan(t):
        n = len(t)
        code = list(t)
        mask = list(t)
        i = 0

        def blank(arr, a, b):
            for k in range(a, b):
                if arr[k] != "\n":
                    arr[k] = " "

        while i < n:
            c = t[i]
            if t.startswith("//", i):
                j = t.find("\n", i)
                j = n if j < 0 else j
                blank(code, i, j)
                blank(mask, i, j)
                i = j
            elif t.startswith("/*", i):
                depth, j = 1, i + 2
                while j < n and depth:
                    if t.startswith("/*", j):
                        depth += 1
                        j += 2
                    elif t.startswith("*/", j):
                        depth -= 1
                        j += 2
                    else:
                        j += 1
                blank(code, i, j)
                blank(mask, i, j)
                i = j
            elif c == '"' or (c == "b" and t.startswith('b"', i)):
                s = i + (1 if c == '"' else 2)
                j = s
                while j < n and t[j] != '"':
                    j += 2 if t[j] == "\\" else 1
                blank(mask, s, j)
                i = j + 1
            elif c == "r" and re.match(r'r#*"', t[i:i + 12]) and (i == 0 or not (t[i - 1].isalnum() or t[i - 1] == "_")):
                m = re.match(r'r(#*)"', t[i:i + 12])
                hashes = m.group(1)
                s = i + len(m.group(0))
                j = t.find('"' + hashes, s)
                if j < 0:
                    fail("unterminated raw string")
                blank(mask, s, j)
                i = j + 1 + len(hashes)
            elif c == "'":
                m = re.match(r"'(\\x[0-9a-fA-F]{2}|\\u\{[0-9a-fA-F_]+\}|\\.|[^\\'])'", t[i:i + 14])
                if m:
                    blank(mask, i + 1, i + len(m.group(0)) - 1)
                    i += len(m.group(0))
                else:
                    i += 1  # lifetime
            else:
                i += 1
        return "".join(code), "".join(mask)

    def match_brace(self, open_pos):
        """position of the bracket matching the one at open_pos (in mask)"""
        pairs = {"{": "}", "(": ")", "[": "]"}
        o = self.mask[open_pos]
        cl = pairs[o]
        depth = 0
        for k in range(open_pos, len(self.mask)):
            ch = self.mask[k]
            if ch == o:
                depth += 1
            elif ch == cl:
                depth -= 1
                if depth == 0:
                    return k
        fail(f"{self.rel}:{self.line_of(open_pos)}: unbalanced '{o}'")


def unescape(lit, where):
    """decode a Rust string literal token (with quotes)"""
    m = re.fullmatch(r'r(#*)"(.*)"\1', lit, flags=re.S)
    if m:
        return m.group(2)
    if not (lit.startswith('"') and lit.endswith('"') and len(lit) >= 2):
        fail(f"{where}: not a string literal: {lit!r}")
    body = lit[1:-1]
    out = []
    i = 0
    simple = {"n": "\n", "t": "\t", "r": "\r", "0": "\0", "\\": "\\", '"': '"', "'": "'"}
    while i < len(body):
        c = body[i]
        if c != "\\":
            out.append(c)
            i += 1
            continue
        e = body[i + 1] if i + 1 < len(body) else ""
        if e in simple:
            out.append(simple[e])
            i += 2
        elif e == "x":
            out.append(chr(int(body[i + 2:i + 4], 16)))
            i += 4
        elif e == "u":
            j = body.index("}", i)
            out.append(chr(int(body[i + 3:j].replace("_", ""), 16)))
            i = j + 1
        elif e == "\n":
            i += 2
            while i < len(body) and body[i] in " \t\n\r":
                i += 1
        else:
            fail(f"{where}: unknown escape \\{e} in {lit!r}")
    return "".join(out)


STR = r'(?:r#*"[^"]*"#*|"(?:\\.|[^"\\])*")'


def split_top(src, a, b, sep):
    """split mask[a:b] at top-level occurrences of sep (a 1- or 2-char token); returns spans"""
    spans = []
    depth = 0
    start = a
    k = a
    m = src.mask
    while k < b:
        ch = m[k]
        if ch in "({[":
            depth += 1
        elif ch in ")}]":
            depth -= 1
        elif depth == 0 and m.startswith(sep, k):
            spans.append((start, k))
            k += len(sep)
            start = k
            continue
        k += 1
    spans.append((start, b))
    return spans


def match_arms(src, open_pos):
    """arms of the match whose `{` is at open_pos: list of (pattern, expr, line)"""
    close = src.match_brace(open_pos)
    m = src.mask
    arms = []
    k = open_pos + 1
    while True:
        while k < close and m[k] in " \t\r\n,":
            k += 1
        if k >= close:
            break
        # pattern up to top-level =>
        depth = 0
        p = k
        while p < close:
            ch = m[p]
            if ch in "({[":
                depth += 1
            elif ch in ")}]":
                depth -= 1
            elif depth == 0 and m.startswith("=>", p):
                break
            p += 1
        if p >= close:
            fail(f"{src.rel}:{src.line_of(k)}: match arm without '=>'")
        pat = src.code[k:p].strip()
        e = p + 2
        while e < close and m[e] in " \t\r\n":
            e += 1
        if m[e] == "{":
            end = src.match_brace(e) + 1
        else:
            depth = 0
            end = e
            while end < close:
                ch = m[end]
                if ch in "({[":
                    depth += 1
                elif ch in ")}]":
                    depth -= 1
                elif depth == 0 and ch == ",":
                    break
                end += 1
        expr = src.code[e:end].strip()
        arms.append((pat, expr, src.line_of(k)))
        k = end
    return arms


def find_impl(src, trait_re, ty):
    """(open, close) of `impl <trait> for <ty> {`; None if absent; error if ambiguous"""
    rx = re.compile(r"\bimpl\s*(?:<[^>{}]*>\s*)?(" + trait_re + r")\s+for\s+(&\s*)?" + re.escape(ty) + r"\s*\{")
    hits = list(rx.finditer(src.mask))
    if not hits:
        return None
    if len(hits) > 1:
        fail(f"{src.rel}: {len(hits)} impls of {trait_re} for {ty}")
    o = hits[0].end() - 1
    return o, src.match_brace(o)


def find_fn(src, a, b, name):
    rx = re.compile(r"\bfn\s+" + name + r"\s*(?:<[^>]*>)?\s*\(")
    m = rx.search(src.mask, a, b)
    if not m:
        fail(f"{src.rel}:{src.line_of(a)}: fn {name} not found")
    par = src.match_brace(m.end() - 1)
    o = src.mask.index("{", par)
    if o > b:
        fail(f"{src.rel}:{src.line_of(a)}: fn {name} has no body")
    return o, src.match_brace(o)


def sole_match(src, o, c, wrappers, what):
    """the fn body mask[o+1:c] must be exactly `match SCRUT { ... }`, optionally inside one of the
    given wrapper shapes (regex prefix, regex suffix). Returns (scrutinee, open_pos_of_match)."""
    body_m = src.mask[o + 1:c]
    mm = re.search(r"\bmatch\b", body_m)
    if not mm:
        fail(f"{src.rel}:{src.line_of(o)}: {what}: no match expression")
    mpos = o + 1 + mm.start()
    # scrutinee up to the first top-level {
    k = o + 1 + mm.end()
    depth = 0
    while k < c:
        ch = src.mask[k]
        if ch in "([":
            depth += 1
        elif ch in ")]":
            depth -= 1
        elif ch == "{" and depth == 0:
            break
        k += 1
    scrut = re.sub(r"\s+", "", src.code[o + 1 + mm.end():k])
    mclose = src.match_brace(k)
    before = src.code[o + 1:mpos].strip()
    after = src.code[mclose + 1:c].strip()
    ok = False
    for pre, suf in wrappers:
        if re.fullmatch(pre, before) and re.fullmatch(suf, after):
            ok = True
    if not ok:
        fail(f"{src.rel}:{src.line_of(o)}: {what}: code around the match is not a recognised shape: "
             f"before={before!r} after={after!r}")
    return scrut, k


# --------------------------------------------------------------------------- enum extraction

def enum_variants(src, ty):
    rx = re.compile(r"\benum\s+" + re.escape(ty) + r"\s*\{")
    hits = list(rx.finditer(src.mask))
    if len(hits) != 1:
        fail(f"{src.rel}: expected exactly one `enum {ty}`, found {len(hits)}")
    o = hits[0].end() - 1
    c = src.match_brace(o)
    out = []
    for a, b in split_top(src, o + 1, c, ","):
        item = src.code[a:b]
        item_m = src.mask[a:b]
        # drop attributes #[...]
        while True:
            am = re.search(r"#\s*\[", item_m)
            if not am:
                break
            # find matching ] in item_m
            depth = 0
            for k in range(am.end() - 1, len(item_m)):
                if item_m[k] == "[":
                    depth += 1
                elif item_m[k] == "]":
                    depth -= 1
                    if depth == 0:
                        break
            item = item[:am.start()] + " " * (k + 1 - am.start()) + item[k + 1:]
            item_m = item_m[:am.start()] + " " * (k + 1 - am.start()) + item_m[k + 1:]
        item = item.strip()
        if not item:
            continue
        m = re.fullmatch(r"(\w+)\s*(\(.*\)|\{.*\})?\s*(=\s*[^,]+)?", item, flags=re.S)
        if not m:
            fail(f"{src.rel}:{src.line_of(a)}: cannot read variant of {ty}: {item!r}")
        out.append((m.group(1), "unit" if m.group(2) is None else "payload"))
    return out, src.line_of(o)


PRINT_KW = [
    re.compile(r"^(" + STR + r")$"),
    re.compile(r"^f\.write_str\(\s*(" + STR + r")\s*\)$"),
    re.compile(r"^(" + STR + r")\s*\.\s*(?:to_owned|to_string|into)\(\)$"),
    re.compile(r"^String::from\(\s*(" + STR + r")\s*\)$"),
    re.compile(r"^write!\(\s*f\s*,\s*(" + STR + r")\s*\)$"),
]


def variant_of(pat, ty):
    m = re.fullmatch(r"(?:" + re.escape(ty) + r"|Self)\s*::\s*(\w+)", pat)
    return m.group(1) if m else None


def extract_print(src, ty, allow_payload):
    """rows (variant, keyword), payload rows (variant, prefix), site line"""
    imp = find_impl(src, r"(?:std::fmt::|fmt::)?Display", ty)
    kind = "Display"
    if imp:
        fo, fc = find_fn(src, imp[0], imp[1], "fmt")
        scrut, mo = sole_match(src, fo, fc, [(r"", r""), (r"f\.write_str\(", r"\)")], f"Display for {ty}")
        if scrut not in ("self", "*self"):
            fail(f"{src.rel}:{src.line_of(mo)}: Display for {ty}: match on {scrut!r}, expected self")
    else:
        imp = find_impl(src, r"From<\s*&\s*" + re.escape(ty) + r"\s*>", "String")
        kind = "From<&T> for String"
        if not imp:
            fail(f"{src.rel}: no Display and no From<&{ty}> for String impl found")
        fo, fc = find_fn(src, imp[0], imp[1], "from")
        scrut, mo = sole_match(src, fo, fc, [(r"", r"")], f"From<&{ty}> for String")
        arg = re.search(r"\bfn\s+from\s*\(\s*(\w+)\s*:", src.code[imp[0]:imp[1]])
        if not arg or scrut != arg.group(1):
            fail(f"{src.rel}:{src.line_of(mo)}: From<&{ty}>: match on {scrut!r}, expected the argument")
        # to_string must route through this impl
        ts = find_impl(src, r"ToString", ty)
        if not ts:
            fail(f"{src.rel}: {ty}: From<&{ty}> for String present but no ToString impl")
        body = re.sub(r"\s+", "", src.code[ts[0]:ts[1]])
        if not re.search(r"fnto_string\(&self\)->String\{(self\.into\(\)|self\.to_owned\(\)\.into\(\)|\(\*self\)\.into\(\))\}", body):
            fail(f"{src.rel}:{src.line_of(ts[0])}: ToString for {ty}: body is not `self.into()`: {body}")
    rows, payload = [], []
    for pat, expr, line in match_arms(src, mo):
        where = f"{src.rel}:{line}"
        v = variant_of(pat, ty)
        expr1 = re.sub(r"\s+", " ", expr)
        if v is not None:
            kw = None
            for rx in PRINT_KW:
                m = rx.match(expr1)
                if m:
                    kw = unescape(m.group(1), where)
                    break
            if kw is None:
                fail(f"{where}: print arm of {ty}::{v} not classifiable: {expr1!r}")
            if "{" in kw and expr1.startswith("write!"):
                fail(f"{where}: format placeholder in keyword of {ty}::{v}")
            rows.append((v, kw))
            continue
        m = re.fullmatch(r"(?:" + re.escape(ty) + r"|Self)\s*::\s*(\w+)\s*\(\s*(\w+)\s*\)", pat)
        if m and allow_payload:
            v, var = m.group(1), m.group(2)
            if re.fullmatch(r"f\.write_str\(\s*&?\s*" + var + r"\s*\)", expr1) or \
               re.fullmatch(r'write!\(\s*f\s*,\s*"\{\}"\s*,\s*' + var + r"\s*\)", expr1) or \
               re.fullmatch(r"f\.write_str\(\s*&\s*" + var + r"\.to_string\(\)\s*\)", expr1):
                payload.append((v, ""))
                continue
            pm = re.fullmatch(r'write!\(\s*f\s*,\s*"((?:[^"\\{}]|\\.)*)\{\}"\s*,\s*' + var + r"\s*\)", expr1)
            if pm:
                payload.append((v, unescape('"' + pm.group(1) + '"', where)))
                continue
        fail(f"{where}: print arm of {ty} not classifiable: {pat!r} => {expr1!r}")
    return rows, payload, f"{src.rel}:{src.line_of(mo)} ({kind})"


SCRUTINEES = {
    "ARG": "exact",
    "ARG.to_lowercase().as_str()": "lowerUnicode",
    "&ARG.to_lowercase()[..]": "lowerUnicode",
    "ARG.to_ascii_lowercase().as_str()": "lowerAscii",
}


def extract_parse(src, ty, allow_payload):
    imp = find_impl(src, r"(?:std::str::|str::)?FromStr", ty)
    if not imp:
        fail(f"{src.rel}: no FromStr impl for {ty}")
    fo, fc = find_fn(src, imp[0], imp[1], "from_str")
    arg = re.search(r"\bfn\s+from_str\s*\(\s*(\w+)\s*:\s*&\s*str\s*\)", src.code[imp[0]:imp[1]])
    if not arg:
        fail(f"{src.rel}:{src.line_of(fo)}: from_str of {ty}: unexpected signature")
    scrut, mo = sole_match(src, fo, fc, [(r"", r"")], f"FromStr for {ty}")
    key = scrut.replace(arg.group(1), "ARG", 1) if scrut.startswith(arg.group(1)) or scrut.startswith("&" + arg.group(1)) else scrut
    if key not in SCRUTINEES:
        fail(f"{src.rel}:{src.line_of(mo)}: from_str of {ty}: unknown normalisation of the input: match {scrut}")
    norm = SCRUTINEES[key]
    rows = []
    catch = None
    for pat, expr, line in match_arms(src, mo):
        where = f"{src.rel}:{line}"
        expr1 = re.sub(r"\s+", " ", expr)
        if catch is not None:
            fail(f"{where}: arm after the catch-all arm of {ty}::from_str")
        if re.search(r"\bif\b", re.sub(STR, '""', pat)):
            fail(f"{where}: guarded arm in {ty}::from_str: {pat!r}")
        lits = re.fullmatch(r"\s*(" + STR + r")(\s*\|\s*" + STR + r")*\s*", pat)
        if lits:
            kws = [unescape(x, where) for x in re.findall(STR, pat)]
            m = re.fullmatch(r"Ok\(\s*(?:" + re.escape(ty) + r"|Self)\s*::\s*(\w+)\s*\)", expr1)
            if not m:
                fail(f"{where}: keyword arm of {ty}::from_str not classifiable: {expr1!r}")
            for kw in kws:
                rows.append((kw, m.group(1)))
            continue
        if re.fullmatch(r"_|[a-z_]\w*", pat):
            if re.fullmatch(r"Err\(.*\)", expr1):
                catch = ("reject", None)
                continue
            m = re.fullmatch(r"Ok\(\s*(?:" + re.escape(ty) + r"|Self)\s*::\s*(\w+)\s*\)", expr1)
            if m:
                catch = ("default", m.group(1))
                continue
            m = re.fullmatch(r"Ok\(\s*(?:" + re.escape(ty) + r"|Self)\s*::\s*(\w+)\s*\(\s*(\w+)\s*\.\s*(?:to_string|to_owned|into)\(\)\s*\)\s*\)", expr1)
            if m and allow_payload and m.group(2) in (pat, arg.group(1)) and norm == "exact":
                catch = ("payload", m.group(1))
                continue
            fail(f"{where}: catch-all arm of {ty}::from_str not classifiable: {expr1!r}")
        fail(f"{where}: arm of {ty}::from_str not classifiable: {pat!r} => {expr1!r}")
    if catch is None:
        fail(f"{src.rel}:{src.line_of(mo)}: {ty}::from_str has no catch-all arm")
    return rows, norm, catch, f"{src.rel}:{src.line_of(mo)}"


def extract_enum(srcs, ty, rel, hybrid):
    src = srcs(rel)
    variants, vline = enum_variants(src, ty)
    prows, ppayload, psite = extract_print(src, ty, hybrid)
    qrows, norm, catch, qsite = extract_parse(src, ty, hybrid)
    units = [v for v, k in variants if k == "unit"]
    pay = [v for v, k in variants if k == "payload"]
    if not hybrid and pay:
        fail(f"{rel}:{vline}: {ty} is listed as a keyword enumeration but variant {pay[0]} carries data")
    if hybrid:
        if len(pay) != 1 or catch[0] != "payload" or catch[1] != pay[0] or [p[0] for p in ppayload] != pay:
            fail(f"{rel}:{vline}: {ty}: expected exactly one payload variant that is both the parse catch-all "
                 f"and a passthrough print arm (variants={variants}, catch={catch}, print payload={ppayload})")
        if ppayload[0][1] != "":
            fail(f"{rel}:{vline}: {ty}: payload variant printed with a prefix {ppayload[0][1]!r}")
    if sorted(v for v, _ in prows) != sorted(units):
        fail(f"{psite}: print arms of {ty} {sorted(v for v, _ in prows)} do not cover the unit variants {sorted(units)} exactly once")
    for kw, v in qrows:
        if v not in units:
            fail(f"{qsite}: {ty}::from_str maps {kw!r} to unknown variant {v}")
    if catch[0] == "default" and catch[1] not in units:
        fail(f"{qsite}: {ty}::from_str defaults to unknown variant {catch[1]}")
    return {"name": ty, "file": rel, "decl_line": vline, "variants": units, "payload_variant": pay[0] if pay else None,
            "print": prows, "print_site": psite, "parse": qrows, "parse_site": qsite,
            "norm": norm, "catch_all": catch[0], "catch_all_variant": catch[1]}


# --------------------------------------------------------------------------- other literals

def fn_body(src, name):
    rx = re.compile(r"\bfn\s+" + name + r"\s*(?:<[^>]*>)?\s*\(")
    hits = list(rx.finditer(src.mask))
    if len(hits) != 1:
        fail(f"{src.rel}: expected exactly one fn {name}, found {len(hits)}")
    par = src.match_brace(hits[0].end() - 1)
    o = src.mask.index("{", par)
    return o, src.match_brace(o)


def one(rx, text, where, what):
    hits = re.findall(rx, text)
    if len(hits) != 1:
        fail(f"{where}: expected exactly one {what}, found {len(hits)}")
    return hits[0]


def extract_origin(srcs):
    src = srcs("dep3/src/fields.rs")
    o, c = fn_body(src, "parse_origin")
    body = src.code[o:c]
    where = f"{src.rel}:{src.line_of(o)}"
    lits = {}
    lits["parse_origin.sep"] = unescape(one(r"\.splitn\(\s*2\s*,\s*(" + STR + r")\s*\)", body, where, "splitn(2, <sep>)"), where)
    lits["parse_origin.commit"] = unescape(one(r"\.strip_prefix\(\s*(" + STR + r")\s*\)", body, where, "strip_prefix"), where)
    mm = re.search(r"\bmatch\s+parts\.next\(\)\s*\{", src.mask[o:c])
    if not mm:
        fail(f"{where}: parse_origin: `match parts.next()` not found")
    rows = []
    seen_catch = False
    for pat, expr, line in match_arms(src, o + mm.end() - 1):
        w = f"{src.rel}:{line}"
        expr1 = re.sub(r"\s+", " ", expr)
        if seen_catch:
            fail(f"{w}: arm after catch-all in parse_origin")
        m = re.fullmatch(r"Some\(\s*(" + STR + r")\s*\)", pat)
        if m:
            e = re.fullmatch(r'\(\s*Some\(\s*OriginCategory::(\w+)\s*\)\s*,\s*parts\.next\(\)\.unwrap_or\(\s*""\s*\)\s*\)', expr1)
            if not e:
                fail(f"{w}: parse_origin keyword arm not classifiable: {expr1!r}")
            rows.append((unescape(m.group(1), w), e.group(1)))
            continue
        if re.sub(r"\s+", "", pat) in ("None|Some(_)", "Some(_)|None", "_"):
            if not re.fullmatch(r"\(\s*None\s*,\s*s\s*\)", expr1):
                fail(f"{w}: parse_origin catch-all arm not classifiable: {expr1!r}")
            seen_catch = True
            continue
        fail(f"{w}: parse_origin arm not classifiable: {pat!r} => {expr1!r}")
    if not seen_catch:
        fail(f"{where}: parse_origin has no catch-all arm")
    o2, c2 = fn_body(src, "format_origin")
    w2 = f"{src.rel}:{src.line_of(o2)}"
    lits["format_origin.sep"] = unescape(one(r"c\.to_string\(\)\s*\+\s*(" + STR + r")", src.code[o2:c2], w2, "c.to_string() + <sep>"), w2)
    for ty in ("Origin", "AppliedUpstream"):
        imp = find_impl(src, r"(?:std::str::|str::)?FromStr", ty)
        if not imp:
            fail(f"{src.rel}: no FromStr for {ty}")
        w = f"{src.rel}:{src.line_of(imp[0])}"
        lits[f"{ty}.parse.prefix"] = unescape(one(r"\.strip_prefix\(\s*(" + STR + r")\s*\)", src.code[imp[0]:imp[1]], w, "strip_prefix"), w)
        imp = find_impl(src, r"(?:std::fmt::|fmt::)?Display", ty)
        if not imp:
            fail(f"{src.rel}: no Display for {ty}")
        w = f"{src.rel}:{src.line_of(imp[0])}"
        pre = one(r'write!\(\s*f\s*,\s*"((?:[^"\\{}]|\\.)*)\{\}"\s*,', src.code[imp[0]:imp[1]], w, 'write!(f, "<prefix>{}", …)')
        lits[f"{ty}.print.prefix"] = unescape('"' + pre + '"', w)
    return rows, lits, f"{src.rel}:{src.line_of(o)}"


def extract_vcs(srcs):
    src = srcs("debian-control/src/vcs.rs")
    o, c = fn_body(src, "from_field")
    mm = re.search(r"\bmatch\s+name\s*\{", src.mask[o:c])
    if not mm:
        fail(f"{src.rel}:{src.line_of(o)}: from_field: `match name` not found")
    parse_names = []
    catch = False
    for pat, expr, line in match_arms(src, o + mm.end() - 1):
        w = f"{src.rel}:{line}"
        if catch:
            fail(f"{w}: arm after catch-all in Vcs::from_field")
        m = re.fullmatch(STR, pat)
        if m:
            vs = set(re.findall(r"Vcs::(\w+)\s*\{", expr))
            if len(vs) != 1:
                fail(f"{w}: Vcs::from_field arm {pat} builds {sorted(vs)}")
            parse_names.append((unescape(pat, w), vs.pop()))
            continue
        if re.fullmatch(r"_|[a-z_]\w*", pat) and re.fullmatch(r"Err\(.*\)", re.sub(r"\s+", " ", expr), flags=re.S):
            catch = True
            continue
        fail(f"{w}: Vcs::from_field arm not classifiable: {pat!r}")
    if not catch:
        fail(f"{src.rel}: Vcs::from_field has no rejecting catch-all arm")
    o2, c2 = fn_body(src, "to_field")
    mm = re.search(r"\bmatch\s+self\s*\{", src.mask[o2:c2])
    if not mm:
        fail(f"{src.rel}:{src.line_of(o2)}: to_field: `match self` not found")
    print_names = []
    for pat, expr, line in match_arms(src, o2 + mm.end() - 1):
        w = f"{src.rel}:{line}"
        m = re.fullmatch(r"Vcs::(\w+)\s*\{.*\}", pat, flags=re.S)
        e = re.match(r"\(\s*(" + STR + r")\s*,", expr)
        if not m or not e:
            fail(f"{w}: Vcs::to_field arm not classifiable: {pat!r}")
        print_names.append((m.group(1), unescape(e.group(1), w)))
    # literals of ParsedVcs
    imp = find_impl(src, r"(?:std::str::|str::)?FromStr", "ParsedVcs")
    dis = find_impl(src, r"(?:std::fmt::|fmt::)?Display", "ParsedVcs")
    if not imp or not dis:
        fail(f"{src.rel}: ParsedVcs FromStr/Display not found")
    w = f"{src.rel}:{src.line_of(imp[0])}"
    lits = {}
    lits["ParsedVcs.parse.regex"] = unescape(one(r"Regex::new\(\s*(" + STR + r")\s*\)", src.code[imp[0]:imp[1]], w, "Regex::new"), w)
    lits["ParsedVcs.parse.branch"] = unescape(one(r"\.find\(\s*(" + STR + r")\s*\)", src.code[imp[0]:imp[1]], w, "find(<branch marker>)"), w)
    w = f"{src.rel}:{src.line_of(dis[0])}"
    fmts = re.findall(r'write!\(\s*f\s*,\s*(' + STR + r')\s*,\s*(\w+)\s*\)', src.code[dis[0]:dis[1]])
    d = {var: unescape(lit, w) for lit, var in fmts}
    if set(d) != {"branch", "subpath"}:
        fail(f"{w}: ParsedVcs Display: expected write! for branch and subpath, found {sorted(d)}")
    lits["ParsedVcs.print.branch"] = d["branch"]
    lits["ParsedVcs.print.subpath"] = d["subpath"]
    return parse_names, print_names, lits, f"{src.rel}:{src.line_of(o)}"


# --------------------------------------------------------------------------- output

def lean_str(s):
    out = ['"']
    for ch in s:
        if ch == '"':
            out.append('\\"')
        elif ch == "\\":
            out.append("\\\\")
        elif ch == "\n":
            out.append("\\n")
        elif ch == "\t":
            out.append("\\t")
        elif ch == "\r":
            out.append("\\r")
        elif ord(ch) < 32 or ord(ch) == 127:
            out.append("\\x%02x" % ord(ch))
        else:
            out.append(ch)
    out.append('"')
    return "".join(out) + ".toList"


def lean_pairs(rows):
    return "[" + ", ".join(f"({lean_str(a)}, {lean_str(b)})" for a, b in rows) + "]"


def lean_ident(ty):
    return ty[0].lower() + ty[1:]


def emit_lean(enums, hybrids, origin, vcs):
    L = []
    L.append("import Deb822Verif.Model.Enum")
    L.append("/-!")
    L.append("  GENERATED by tools/translate.py enums from the Rust sources of /repo — do not edit.")
    L.append("  Plain data only. Regenerated on every `./check C18`.")
    L.append("-/")
    L.append("namespace Deb822Verif.Gen.Enums")
    L.append("open Deb822Verif.Enum")
    L.append("")

    def spec(e):
        ca = {"reject": ".reject", "default": f".default {lean_str(e['catch_all_variant'] or '')}",
              "payload": f".payload {lean_str(e['catch_all_variant'] or '')}"}[e["catch_all"]]
        L.append(f"/-- `{e['name']}`: declared {e['file']}:{e['decl_line']}; print arms {e['print_site']}; parse arms {e['parse_site']} -/")
        L.append(f"def {lean_ident(e['name'])} : EnumSpec where")
        L.append(f"  name := {lean_str(e['name'])}")
        L.append("  variants := [" + ", ".join(lean_str(v) for v in e["variants"]) + "]")
        L.append(f"  printTab := {lean_pairs(e['print'])}")
        L.append(f"  parseTab := {lean_pairs(e['parse'])}")
        L.append(f"  norm := .{e['norm']}")
        L.append(f"  catchAll := {ca}")
        L.append("")

    for e in enums:
        spec(e)
    L.append("/-- every keyword enumeration of the property -/")
    L.append("def all : List EnumSpec := [" + ", ".join(lean_ident(e["name"]) for e in enums) + "]")
    L.append("")
    for e in hybrids:
        spec(e)
    rows, lits, site = origin
    L.append(f"/-- category keywords recognised by `parse_origin` ({site}): (keyword, OriginCategory variant) -/")
    L.append(f"def originPrefix : List (Str × Str) := {lean_pairs(rows)}")
    L.append("")
    pn, qn, vl, vsite = vcs
    L.append(f"/-- `Vcs::from_field` ({vsite}): (field name, variant) -/")
    L.append(f"def vcsParseNames : List (Str × Str) := {lean_pairs(pn)}")
    L.append("/-- `Vcs::to_field`: (variant, field name) -/")
    L.append(f"def vcsPrintNames : List (Str × Str) := {lean_pairs(qn)}")
    L.append("")
    allits = dict(lits)
    allits.update(vl)
    L.append("/-- separator / prefix literals read from the parse and print sites -/")
    L.append(f"def literals : List (Str × Str) := {lean_pairs(sorted(allits.items()))}")
    L.append("")
    L.append("end Deb822Verif.Gen.Enums")
    return "\n".join(L) + "\n"


def emit_json(enums, hybrids, origin, vcs):
    def conv(e):
        return {"name": e["name"], "file": e["file"], "variants": e["variants"],
                "payload_variant": e["payload_variant"],
                "print": [{"variant": v, "keyword": k} for v, k in e["print"]],
                "parse": [{"keyword": k, "variant": v} for k, v in e["parse"]],
                "norm": e["norm"], "catch_all": e["catch_all"], "catch_all_variant": e["catch_all_variant"],
                "print_site": e["print_site"], "parse_site": e["parse_site"]}
    lits = dict(origin[1])
    lits.update(vcs[2])
    return json.dumps({
        "generated_by": "tools/translate.py enums",
        "enums": [conv(e) for e in enums],
        "hybrids": [conv(e) for e in hybrids],
        "origin_prefix": [{"keyword": k, "variant": v} for k, v in origin[0]],
        "vcs_parse_names": [{"keyword": k, "variant": v} for k, v in vcs[0]],
        "vcs_print_names": [{"variant": v, "keyword": k} for v, k in vcs[1]],
        "literals": lits,
    }, indent=1, ensure_ascii=True) + "\n"


def write_if_changed(path, content):
    os.makedirs(os.path.dirname(path), exist_ok=True)
    try:
        if open(path, encoding="utf-8").read() == content:
            return False
    except OSError:
        pass
    with open(path, "w", encoding="utf-8") as f:
        f.write(content)
    return True


POISON = """import Deb822Verif.Model.Enum
/-! GENERATED by tools/translate.py enums — the translator FAILED on the current /repo sources:

{msg}

This file deliberately does not compile, so that no proof is accepted over stale tables. -/
namespace Deb822Verif.Gen.Enums
theorem translator_failed : (0 : Nat) = 1 := by decide
end Deb822Verif.Gen.Enums
"""


def cmd_enums():
    cache = {}

    def srcs(rel):
        if rel not in cache:
            cache[rel] = Src(rel)
        return cache[rel]

    try:
        enums = [extract_enum(srcs, ty, rel, False) for ty, rel in ENUMS]
        hybrids = [extract_enum(srcs, ty, rel, True) for ty, rel in HYBRIDS]
        origin = extract_origin(srcs)
        vcs = extract_vcs(srcs)
    except TranslateError as e:
        print(f"translate enums: ERROR: {e}", file=sys.stderr)
        write_if_changed(GEN_LEAN, POISON.format(msg=str(e).replace("-/", "- /")))
        return 1
    c1 = write_if_changed(GEN_LEAN, emit_lean(enums, hybrids, origin, vcs))
    c2 = write_if_changed(GEN_JSON, emit_json(enums, hybrids, origin, vcs))
    nrows = sum(len(e["print"]) + len(e["parse"]) for e in enums + hybrids)
    print(f"translate enums: {len(enums)} enumerations + {len(hybrids)} keyword/payload types, {nrows} rows, "
          f"{len(origin[0])} origin prefixes, {len(vcs[0])} vcs names; 0 opaque arms; "
          f"{'updated' if c1 or c2 else 'unchanged'} {os.path.relpath(GEN_LEAN, VERIF)}, {os.path.relpath(GEN_JSON, VERIF)}")
    for e in enums:
        if e["catch_all"] != "reject":
            print(f"  NOTE {e['name']}: catch-all arm maps unknown input to {e['catch_all']} {e['catch_all_variant']} ({e['parse_site']})")
        if e["norm"] != "exact":
            print(f"  NOTE {e['name']}: input is normalised ({e['norm']}) before matching ({e['parse_site']})")
    return 0


# =========================================================================== structs (C16)

GEN_STRUCTS_LEAN = os.path.join(VERIF, "lean", "Deb822Verif", "Gen", "Structs.lean")
GEN_STRUCTS_JSON = os.path.join(VERIF, "harness", "gen", "structs.json")
# the synthetic struct family of the harness is translated exactly like the shipped structs
HARNESS_STRUCTS = os.path.join(VERIF, "harness", "src", "derive.rs")
DERIVE_NAMES = ("FromDeb822", "ToDeb822")


class AbsSrc(Src):
    """Src for an absolute path (rel is used for messages only)"""

    def __init__(self, path, rel):
        self.rel = rel
        self.path = path
        try:
            self.text = open(path, encoding="utf-8").read()
        except OSError as e:
            fail(f"cannot read {path}: {e}")
        self.code, self.mask = self._scan(self.text)


def split_fields(src, a, b):
    """split mask[a:b] at commas that are outside (), [], {} and <>"""
    spans, depth, start, k = [], 0, a, a
    m = src.mask
    while k < b:
        ch = m[k]
        if ch in "({[<":
            depth += 1
        elif ch in ")}]":
            depth -= 1
        elif ch == ">" and not (k > 0 and m[k - 1] in "-="):
            depth -= 1
        elif ch == "," and depth == 0:
            spans.append((start, k))
            start = k + 1
        k += 1
    spans.append((start, b))
    return spans


def take_attrs(src, a, b):
    """leading #[...] attributes of mask[a:b]: list of (text, pos), position after them"""
    attrs = []
    k = a
    m = src.mask
    while True:
        while k < b and m[k] in " \t\r\n":
            k += 1
        if k < b and m[k] == "#":
            j = k + 1
            while j < b and m[j] in " \t\r\n!":
                j += 1
            if j >= b or m[j] != "[":
                fail(f"{src.rel}:{src.line_of(k)}: stray '#'")
            e = src.match_brace(j)
            attrs.append((src.code[j + 1:e], k))
            k = e + 1
        else:
            return attrs, k


def norm_type(t):
    t = re.sub(r"\s+", "", t)
    return t.replace(",", ", ")


def option_inner(ty):
    """mirror of deb822-derive `is_option`: the last path segment is `Option` (a leading `::` —
    `::std::option::Option<T>` — is part of the path, not a segment)"""
    m = re.fullmatch(r"(?:::)?((?:\w+::)*)Option<(.*)>", ty)
    if m:
        return True, m.group(2)
    if re.fullmatch(r"(?:::)?((?:\w+::)*)Option", ty):
        fail(f"bare Option type: {ty}")
    return False, ty


def parse_deb822_attr(text, where):
    """contents of #[deb822( ... )] -> dict"""
    m = re.fullmatch(r"\s*deb822\s*\((.*)\)\s*", text, flags=re.S)
    if not m:
        fail(f"{where}: malformed deb822 attribute: {text!r}")
    out = {}
    body = m.group(1)
    # name = value pairs separated by top-level commas
    parts, depth, cur, instr = [], 0, "", False
    i = 0
    while i < len(body):
        ch = body[i]
        if instr:
            cur += ch
            if ch == "\\":
                cur += body[i + 1]
                i += 1
            elif ch == '"':
                instr = False
        elif ch == '"':
            instr = True
            cur += ch
        elif ch in "([{":
            depth += 1
            cur += ch
        elif ch in ")]}":
            depth -= 1
            cur += ch
        elif ch == "," and depth == 0:
            parts.append(cur)
            cur = ""
        else:
            cur += ch
        i += 1
    if cur.strip():
        parts.append(cur)
    for part in parts:
        nv = re.fullmatch(r"\s*(\w+)\s*=\s*(.*?)\s*", part, flags=re.S)
        if not nv:
            fail(f"{where}: deb822 attribute item not name = value: {part!r}")
        name, val = nv.group(1), nv.group(2)
        if name == "field":
            if not re.fullmatch(STR, val):
                fail(f"{where}: deb822(field = …) expects a string literal, got {val!r}")
            out["field"] = unescape(val, where)
        elif name in ("serialize_with", "deserialize_with"):
            if not re.fullmatch(r"(?:\w+::)*\w+", val):
                fail(f"{where}: deb822({name} = …) expects a path, got {val!r}")
            out[name] = val
        else:
            fail(f"{where}: unsupported deb822 attribute: {name}")
        if list(p for p in parts).count(part) > 1:
            fail(f"{where}: duplicate deb822 attribute item {part!r}")
    return out


def module_id(rel):
    parts = rel.split("/")
    stem = os.path.splitext(parts[-1])[0]
    if stem in ("lib", "lossy", "mod", "lossless"):
        crate = parts[0] if parts[0] != "src" else "deb822"
        return re.sub(r"[^A-Za-z0-9]", "", crate)
    return stem


CODEC_SOURCES = {}


def codec_source(src, qname):
    """whitespace-normalised source text of a custom codec function defined in the same file"""
    if qname in CODEC_SOURCES:
        return
    name = qname.split(".", 1)[1]
    hits = list(re.finditer(r"\bfn\s+" + re.escape(name) + r"\s*(?:<[^>]*>)?\s*\(", src.mask))
    if len(hits) != 1:
        fail(f"{src.rel}: expected exactly one definition of codec function {name}, found {len(hits)}")
    par = src.match_brace(hits[0].end() - 1)
    o = src.mask.index("{", par)
    c = src.match_brace(o)
    CODEC_SOURCES[qname] = re.sub(r"\s+", " ", src.code[hits[0].start():c + 1]).strip()


def extract_structs_from(src):
    out = []
    for dm in re.finditer(r"#\s*\[\s*derive\s*\(", src.mask):
        close = src.match_brace(dm.end() - 1)
        names = [n.strip().split("::")[-1] for n in src.code[dm.end():close].split(",")]
        derives = [n for n in names if n in DERIVE_NAMES]
        if not derives:
            continue
        # further attributes, then `struct`
        k = src.mask.index("]", close) + 1
        attrs, k = take_attrs(src, k, len(src.mask))
        hm = re.compile(r"\s*(?:pub(?:\s*\([^)]*\))?\s+)?struct\s+(\w+)\s*(<[^>{]*>)?\s*(\{|\(|;)").match(src.mask, k)
        if not hm:
            fail(f"{src.rel}:{src.line_of(dm.start())}: derive({', '.join(derives)}) not followed by a struct (the macro panics on enums)")
        if hm.group(2):
            fail(f"{src.rel}:{src.line_of(hm.start(1))}: generic struct {hm.group(1)} deriving the paragraph conversions")
        if hm.group(3) != "{":
            fail(f"{src.rel}:{src.line_of(hm.start(1))}: struct {hm.group(1)} is not a named-field struct")
        o = hm.end() - 1
        c = src.match_brace(o)
        fields = []
        for a, b in split_fields(src, o + 1, c):
            if not src.mask[a:b].strip():
                continue
            fattrs, k2 = take_attrs(src, a, b)
            decl = src.code[k2:b].strip()
            where = f"{src.rel}:{src.line_of(k2)}"
            fm = re.fullmatch(r"(?:pub(?:\s*\([^)]*\))?\s+)?(r#)?(\w+)\s*:\s*(.+)", decl, flags=re.S)
            if not fm:
                fail(f"{where}: cannot read field of {hm.group(1)}: {decl!r}")
            ident = (fm.group(1) or "") + fm.group(2)
            ty = norm_type(fm.group(3))
            spec = {}
            for text, pos in fattrs:
                if re.match(r"\s*deb822\b", text):
                    d = parse_deb822_attr(text, f"{src.rel}:{src.line_of(pos)}")
                    for kk, vv in d.items():
                        spec[kk] = vv  # a later attribute overrides, as in the macro
            optional, inner = option_inner(ty)
            mid = module_id(src.rel)

            def qual(n):
                return n if (not n or "::" in n) else mid + "." + n
            fields.append({
                "ident": ident,
                # the macro: attrs.field.unwrap_or_else(|| ident.to_string())
                "key": spec.get("field", ident),
                "key_explicit": "field" in spec,
                "optional": optional,
                "serialize_with": qual(spec.get("serialize_with", "")),
                "deserialize_with": qual(spec.get("deserialize_with", "")),
                "type": inner,
                "line": src.line_of(k2),
            })
        for f in fields:
            for nm in (f["serialize_with"], f["deserialize_with"]):
                if nm and "::" not in nm:
                    codec_source(src, nm)
        out.append({"name": hm.group(1), "file": src.rel, "line": src.line_of(hm.start(1)),
                    "from": "FromDeb822" in derives, "to": "ToDeb822" in derives, "fields": fields})
    return out


def collect_structs():
    structs = []
    for root, dirs, files in os.walk(REPO):
        dirs[:] = sorted(d for d in dirs if d not in ("target", ".git", "deb822-derive", "fuzz", "node_modules"))
        for f in sorted(files):
            if f.endswith(".rs"):
                path = os.path.join(root, f)
                try:
                    if "Deb822" not in open(path, encoding="utf-8").read():
                        continue
                except (OSError, UnicodeDecodeError) as e:
                    fail(f"cannot read {path}: {e}")
                rel = os.path.relpath(path, REPO)
                structs += extract_structs_from(Src(rel))
    if os.path.exists(HARNESS_STRUCTS):
        structs += extract_structs_from(AbsSrc(HARNESS_STRUCTS, "harness/src/derive.rs"))
    # ids
    seen = {}
    for st in structs:
        base = module_id(st["file"]) + "." + st["name"]
        seen.setdefault(base, []).append(st)
    for base, lst in seen.items():
        if len(lst) == 1:
            lst[0]["id"] = base
        else:
            for st in lst:
                st["id"] = f"{base}@{st['line']}"
    ids = [st["id"] for st in structs]
    if len(set(ids)) != len(ids):
        fail(f"struct ids not unique: {ids}")
    if not structs:
        fail("no struct deriving FromDeb822/ToDeb822 found")
    return structs


def lean_chars(s):
    """explicit `List Char` literal: kernel `decide` need not decode a string literal (4x faster)"""
    def ch(c):
        if c == "'":
            return "'\\''"
        if c == "\\":
            return "'\\\\'"
        if c == "\n":
            return "'\\n'"
        if c == "\t":
            return "'\\t'"
        if c == "\r":
            return "'\\r'"
        if ord(c) < 32 or ord(c) == 127:
            return "'\\x%02x'" % ord(c)
        return "'" + c + "'"
    return "[" + ",".join(ch(c) for c in s) + "]"


def source_hash(text):
    import hashlib
    return hashlib.sha256(text.encode("utf-8")).hexdigest()[:16]


def emit_structs_lean(structs):
    L = ["import Deb822Verif.Model.Derive", "/-!",
         "  GENERATED by tools/translate.py structs from the Rust sources of /repo (and the synthetic",
         "  struct family of harness/src/derive.rs) — do not edit.  Plain data only.", "-/",
         "namespace Deb822Verif.Gen.Structs", "open Deb822Verif.Derive", ""]
    names = []
    for i, st in enumerate(structs):
        ident = "s" + str(i) + "_" + re.sub(r"[^A-Za-z0-9]", "_", st["id"])
        names.append(ident)
        L.append(f"/-- `{st['name']}` {st['file']}:{st['line']}  id `{st['id']}`")
        for f in st["fields"]:
            L.append(f"     {f['ident']}: key `{f['key']}`{' (default)' if not f['key_explicit'] else ''}, "
                     f"{'Option<' + f['type'] + '>' if f['optional'] else f['type']}, ser `{f['serialize_with'] or 'ToString'}`, de `{f['deserialize_with'] or 'FromStr'}`".replace("-/", "- /"))
        L.append("-/")
        L.append(f"def {ident} : StructRow where")
        L.append(f"  name := {lean_chars(st['id'])}")
        L.append(f"  derivesFrom := {'true' if st['from'] else 'false'}")
        L.append(f"  derivesTo := {'true' if st['to'] else 'false'}")
        L.append("  fields := [")
        rows = []
        for f in st["fields"]:
            rows.append(f"    ⟨{lean_chars(f['ident'])}, {lean_chars(f['key'])}, {'true' if f['optional'] else 'false'}, "
                        f"{lean_chars(f['serialize_with'])}, {lean_chars(f['deserialize_with'])}, {lean_chars(f['type'])}⟩")
        L.append(",\n".join(rows) + "]")
        L.append("")
    L.append("def all : List StructRow := [" + ", ".join(names) + "]")
    L.append("")
    L.append("/-- every custom codec function named by a field, with the first 16 hex digits of the SHA-256 of its")
    L.append("    source text (white space normalised):")
    for k, v in sorted(CODEC_SOURCES.items()):
        L.append(f"      {k}: {v}".replace("-/", "- /"))
    L.append("-/")
    L.append("def codecSources : List (Str × Str) := [")
    L.append(",\n".join(f"  ({lean_chars(k)}, {lean_chars(source_hash(v))})" for k, v in sorted(CODEC_SOURCES.items())) + "]")
    L.append("")
    L.append("end Deb822Verif.Gen.Structs")
    return "\n".join(L) + "\n"


STRUCTS_POISON = """import Deb822Verif.Model.Derive
/-! GENERATED by tools/translate.py structs — the translator FAILED on the current sources:

{msg}

This file deliberately does not compile. -/
namespace Deb822Verif.Gen.Structs
theorem translator_failed : (0 : Nat) = 1 := by decide
end Deb822Verif.Gen.Structs
"""


def cmd_structs():
    CODEC_SOURCES.clear()
    try:
        structs = collect_structs()
    except TranslateError as e:
        print(f"translate structs: ERROR: {e}", file=sys.stderr)
        write_if_changed(GEN_STRUCTS_LEAN, STRUCTS_POISON.format(msg=str(e).replace("-/", "- /")))
        return 1
    c1 = write_if_changed(GEN_STRUCTS_LEAN, emit_structs_lean(structs))
    c2 = write_if_changed(GEN_STRUCTS_JSON, json.dumps({"generated_by": "tools/translate.py structs", "structs": structs, "codec_sources": CODEC_SOURCES,
                                                        "codec_source_hashes": {k: source_hash(v) for k, v in CODEC_SOURCES.items()}},
                                                       indent=1, ensure_ascii=True) + "\n")
    nf = sum(len(s["fields"]) for s in structs)
    triples = sorted({(f["serialize_with"], f["deserialize_with"], f["type"]) for s in structs for f in s["fields"]})
    print(f"translate structs: {len(structs)} deriving structs, {nf} fields, {len(triples)} distinct (ser, de, type) triples; "
          f"0 opaque; {'updated' if c1 or c2 else 'unchanged'} {os.path.relpath(GEN_STRUCTS_LEAN, VERIF)}, {os.path.relpath(GEN_STRUCTS_JSON, VERIF)}")
    return 0


def cmd_pins():
    """rewrite the pinned snapshots of Props/C16.lean from the current sources (a deliberate,
    reviewed step; `./check` never runs it)"""
    CODEC_SOURCES.clear()
    try:
        structs = collect_structs()
    except TranslateError as e:
        print(f"translate pins: ERROR: {e}", file=sys.stderr)
        return 1

    def c(s):
        return "c!" + lean_str(s)[:-len(".toList")]
    keys = "def pinnedKeys : List (Str × List Str) := [\n" + ",\n".join(
        "  (%s, [%s])" % (c(st["id"]), ", ".join(c(f["key"]) for f in st["fields"])) for st in structs) + "]\n"
    srcs = "def pinnedSources : List (Str × Str) := [\n" + ",\n".join(
        "  (%s, %s)" % (c(k), c(source_hash(v))) for k, v in sorted(CODEC_SOURCES.items())) + "]\n"
    path = os.path.join(VERIF, "lean", "Deb822Verif", "Props", "C16.lean")
    t = open(path, encoding="utf-8").read()
    for tag, block in (("KEYS", keys), ("SOURCES", srcs)):
        m = re.search(r"(-- PINNED-%s-BEGIN[^\n]*\n)(.*?)(-- PINNED-%s-END)" % (tag, tag), t, flags=re.S)
        if not m:
            print(f"translate pins: marker PINNED-{tag} not found in {path}", file=sys.stderr)
            return 1
        t = t[:m.start(2)] + block + t[m.start(3):]
    changed = write_if_changed(path, t)
    print(f"translate pins: {'updated' if changed else 'unchanged'} {os.path.relpath(path, VERIF)}")
    return 0


# --------------------------------------------------------------------------- typed accessors (C15)
#
# `translate.py accessors` re-reads the lossless typed views on every run and regenerates
#   lean/Deb822Verif/Gen/Accessors.lean   one `Row` per public method that touches the wrapped paragraph
#   harness/gen/accessors.json            the same rows; harness/src/typed.rs calls every setter / getter
#                                         row on the real code and checks the extracted field name
# and compares with tools/accessors_baseline.json: a row that was classified there and is now opaque
# or gone is a hard error (exit 1, poisoned Gen file). `--update-baseline` rewrites the baseline.
#
# Row = (view, method, kind, op, clearOp, names, shape, strict, absent, optional, site)
#   kind     get | set | other
#   op       get | getAll | set | insert | remove | rename | contains | items | paragraphs | addParagraph | none
#   clearOp  op used by the clearing branch of a setter (Option argument / `false` flag), or none
#   names    field-name literals, in order of first use (setters over several names: the order in which the
#            fields are looked for; the first one present is the one written)
#   dflt     setter: the name written when none of `names` is present
#   shape    closed set, see SHAPES
#   strict   getter: the parse result is `unwrap()`ed (unparsable text panics)
#   absent   getter: none (Option) | default (unwrap_or_default / unwrap_or(false) on the result) | panic (unwrap)
#            | empty (unwrap_or_default on the field text: read like an empty field)

ACC_LEAN = os.path.join(VERIF, "lean", "Deb822Verif", "Gen", "Accessors.lean")
ACC_JSON = os.path.join(VERIF, "harness", "gen", "accessors.json")
ACC_BASE = os.path.join(VERIF, "tools", "accessors_baseline.json")

ACC_FILES = [
    ("control", "debian-control/src/lossless/control.rs"),
    ("apt", "debian-control/src/lossless/apt.rs"),
    ("changes", "debian-control/src/lossless/changes.rs"),
    ("buildinfo", "debian-control/src/lossless/buildinfo.rs"),
    ("copyright", "debian-copyright/src/lossless.rs"),
    ("dep3", "dep3/src/lossless.rs"),
]

# shape tags (Lean: `Shape`); list shapes are ("list", sep, trim, elem)
#   sep   comma | space | ws | nl | lines        (getter: what it splits on; setter: ", " / " " / "\n")
#   elem  "str" | type name
SHAPES = ["str", "typed", "list", "flagYes", "flagYesNo", "flagYesOrRemove", "firstLine", "restLines",
          "license", "licenseBareText", "licenseName", "licenseText", "originField", "rfc2822", "dateYmd",
          "envMap", "vcsScan", "bugsScan", "headerFix", "firstPara", "filterParaWithout", "findPara", "filterPara", "filterParaTail", "filterParaWithoutTail", "addPara", "composite", "derived", "opaque"]

PARA_OPS = {"get": "get", "get_all": "getAll", "set": "set", "insert": "insert", "remove": "remove",
            "rename": "rename", "contains_key": "contains", "items": "items", "paragraphs": "paragraphs",
            "add_paragraph": "addParagraph", "keys": "keys"}

TOK = re.compile(STR + r"|'(?:\\.|[^\\'])'|\s+|\w+|.", re.S)


def compact(code):
    """drop white space outside literals (one space is kept between two word characters)"""
    out = []
    toks = [t for t in TOK.findall(code)]
    for i, t in enumerate(toks):
        if t.isspace():
            prev = out[-1] if out else ""
            nxt = toks[i + 1] if i + 1 < len(toks) else ""
            if prev and nxt and re.match(r"\w", prev[-1]) and re.match(r"\w", nxt[0]):
                out.append(" ")
            continue
        out.append(t)
    return "".join(out)


def split_params(sig):
    """`a: T, b: U<V, W>` -> [(a, T), (b, U<V,W>)] (top-level commas; angle brackets count)"""
    parts, depth, cur = [], 0, []
    for ch in sig:
        if ch in "<([":
            depth += 1
        elif ch in ">)]":
            depth -= 1
        if ch == "," and depth == 0:
            parts.append("".join(cur))
            cur = []
        else:
            cur.append(ch)
    if "".join(cur).strip():
        parts.append("".join(cur))
    out = []
    for p in parts:
        p = p.strip()
        if not p:
            continue
        if ":" not in p or p.replace(" ", "") in ("&self", "&mutself", "self", "mutself"):
            out.append((re.sub(r"'\w+\s*", "", p).replace(" ", ""), None))
        else:
            n, t = p.split(":", 1)
            out.append((n.strip(), compact(t.strip())))
    return out


class Method:
    pass


def view_structs(src):
    """newtype views: `pub struct X(Paragraph);` / `(deb822_lossless::Deb822)` -> {X: 'Paragraph'|'Deb822'}"""
    out = {}
    for m in re.finditer(r"\bpub\s+struct\s+(\w+)\s*\(\s*(?:deb822_lossless::)?(Paragraph|Deb822)\s*\)\s*;", src.mask):
        out[m.group(1)] = m.group(2)
    return out


def test_spans(src):
    """spans of `#[cfg(test)] mod x { … }`"""
    spans = []
    for m in re.finditer(r"#\s*\[\s*cfg\s*\(\s*test\s*\)\s*\]\s*mod\s+\w+\s*\{", src.mask):
        o = m.end() - 1
        spans.append((m.start(), src.match_brace(o)))
    return spans


def impl_methods(src, ty):
    """methods of every inherent `impl ty { … }` outside test modules"""
    tests = test_spans(src)
    out = []
    for m in re.finditer(r"\bimpl\s+" + re.escape(ty) + r"\s*\{", src.mask):
        if any(a <= m.start() <= b for a, b in tests):
            continue
        o = m.end() - 1
        c = src.match_brace(o)
        k = o + 1
        depth = 0
        # walk the impl body at depth 0 looking for `fn`
        while k < c:
            ch = src.mask[k]
            if ch in "{([":
                k = src.match_brace(k) + 1
                continue
            fm = re.compile(r"\b(pub(?:\s*\([^)]*\))?\s+)?fn\s+(\w+)\s*").match(src.mask, k)
            if fm and (k == 0 or not (src.mask[k - 1].isalnum() or src.mask[k - 1] == "_")):
                par_o = fm.end()
                if src.mask[par_o] == "<":
                    depth = 0
                    while True:
                        if src.mask[par_o] == "<":
                            depth += 1
                        elif src.mask[par_o] == ">" and src.mask[par_o - 1] != "-":
                            depth -= 1
                            if depth == 0:
                                break
                        par_o += 1
                    par_o += 1
                    while src.mask[par_o].isspace():
                        par_o += 1
                if src.mask[par_o] != "(":
                    k += 1
                    continue
                par_c = src.match_brace(par_o)
                body_o = src.mask.index("{", par_c)
                # `where` clauses / return type sit between par_c and body_o
                semi = src.mask.find(";", par_c, body_o)
                if semi >= 0:
                    k = semi + 1
                    continue
                body_c = src.match_brace(body_o)
                me = Method()
                me.name = fm.group(2)
                me.public = fm.group(1) is not None
                me.params = split_params(src.code[par_o + 1:par_c])
                ret = src.code[par_c + 1:body_o]
                rm = re.search(r"->\s*(.*?)\s*(?:\bwhere\b.*)?$", ret, flags=re.S)
                me.ret = compact(rm.group(1)) if rm else None
                me.body = compact(src.code[body_o + 1:body_c])
                me.line = src.line_of(fm.start())
                # attributes directly above (cfg feature gates)
                head = src.code[max(0, fm.start() - 200):fm.start()]
                am = re.search(r'#\[cfg\(feature\s*=\s*"([^"]+)"\)\]\s*$', head)
                me.feature = am.group(1) if am else None
                out.append(me)
                k = body_c + 1
                continue
            k += 1
    return out


def receiver(me):
    if not me.params:
        return None
    r = me.params[0][0]
    return {"&self": "ref", "&mutself": "mut", "self": "own", "mutself": "own"}.get(r)


def lit(s, where):
    return unescape(s, where)


def norm_lambdas(expr):
    """rename closure parameters to _1, _2, … (in order of appearance), drop closure braces that wrap
    a single expression, drop turbofish on collect/parse"""
    expr = re.sub(r"\.collect::<[^()]*?>\(\)", ".collect()", expr)
    expr = re.sub(r"\.parse::<[^()]*?>\(\)", ".parse()", expr)
    n = 0
    pos = 0
    while True:
        m = re.compile(r"\|(\w+)\|").search(expr, pos)
        if not m:
            break
        n += 1
        var = m.group(1)
        new = f"_{n}"
        head, tail = expr[:m.start()], expr[m.end():]
        # the closure body extends to the matching close of the enclosing call
        depth, e = 0, 0
        while e < len(tail):
            ch = tail[e]
            if ch in "([{":
                depth += 1
            elif ch in ")]}":
                if depth == 0:
                    break
                depth -= 1
            elif ch == "," and depth == 0:
                break
            elif ch == '"':
                e += 1
                while e < len(tail) and tail[e] != '"':
                    e += 2 if tail[e] == "\\" else 1
            elif ch == "'":
                cm = re.match(r"'(?:\\.|[^\\'])'", tail[e:])
                if cm:
                    e += len(cm.group(0)) - 1
            e += 1
        body = tail[:e]
        body = re.sub(r"(?<![\w.])" + re.escape(var) + r"(?!\w)", new, body)
        # replace also `.x` style uses? (not needed: closure vars are never fields)
        if body.startswith("{") and body.endswith("}") and not _top_has(body[1:-1], ";") and _balanced(body[1:-1]):
            body = body[1:-1]
        expr = head + f"|{new}|" + body + tail[e:]
        pos = len(head) + len(new) + 2
    return expr


def _top_has(s, what):
    depth = 0
    for ch in s:
        if ch in "([{":
            depth += 1
        elif ch in ")]}":
            depth -= 1
        elif ch == what and depth == 0:
            return True
    return False


def _balanced(s):
    depth = 0
    for ch in s:
        if ch in "([{":
            depth += 1
        elif ch in ")]}":
            depth -= 1
            if depth < 0:
                return False
    return depth == 0


def inner_type(t):
    """Option<T> -> T ; Vec<T> -> T ; &T -> T"""
    if t is None:
        return None
    t = t.lstrip("&")
    m = re.fullmatch(r"(?:Option|Vec)<(.*)>", t)
    return m.group(1) if m else t


def short_type(t):
    """last path segment, references dropped: crate::fields::Urgency -> Urgency"""
    if t is None:
        return None
    t = t.lstrip("&")
    t = re.sub(r"^mut ", "", t)
    t = re.sub(r"<.*>$", "", t)
    return t.split("::")[-1]


# getter closures after normalisation -> (shape, strict)
GET_LAMBDAS = {
    "_1.to_string()": (("str",), False),
    "_1.parse().unwrap()": (("typed",), True),
    "_1.parse().ok()": (("typed",), False),
    "_1.split(',').map(|_2|_2.trim().to_owned()).collect()": (("list", "comma", True, "str"), False),
    "_1.split(',').map(|_2|_2.trim().to_string()).collect()": (("list", "comma", True, "str"), False),
    "_1.split_whitespace().map(|_2|_2.trim().to_string()).collect()": (("list", "ws", False, "str"), False),
    "_1.split_whitespace().map(|_2|_2.to_string()).collect()": (("list", "ws", False, "str"), False),
    "_1.split(' ').map(|_2|_2.trim().to_string()).collect()": (("list", "space", True, "str"), False),
    "_1.split(' ').map(|_2|_2.to_string()).collect()": (("list", "space", False, "str"), False),
    "_1.split('\\n').map(|_2|_2.to_string()).collect()": (("list", "nl", False, "str"), False),
    "_1.lines().map(|_2|_2.parse().unwrap()).collect()": (("list", "lines", False, "ELEM"), True),
    '_1=="yes"': (("flagYes",), False),
    'match _1.to_lowercase().as_str(){"yes"=>true,"no"=>false,_=>panic!("invalid Rules-Requires-Root value"),}': (("flagYesNo",), True),
    "chrono::DateTime::parse_from_rfc2822(_1).unwrap()": (("rfc2822",), True),
    'chrono::NaiveDate::parse_from_str(_1,"%Y-%m-%d").ok()': (("dateYmd",), False),
    "_1.split('\\n').next().unwrap_or(_1).to_string()": (("firstLine",), False),
    '_1.split_once(\'\\n\').map(|_2|_2.1).unwrap_or("").to_string()': (("restLines",), False),
    "crate::fields::parse_origin": (("originField",), False),
    "_1.split_once('\\n').map_or_else(||License::Name(_1.to_string()),|(name,text)|{if name.is_empty(){License::Text(text.to_string())}else{License::Named(name.to_string(),text.to_string())}},)": (("license",), False),
    "_1.split_once('\\n').map_or(_1.clone(),|(name,_)|name.to_string())": (("licenseName",), False),
    "_1.split_once('\\n').map(|(_,text)|text.to_string())": (("licenseText",), False),
    "_1.lines().map(|_2|{let(key,value)=_2.split_once('=').unwrap();(key.to_string(),value.to_string())}).collect()": (("envMap",), True),
}

NAME = r"(" + STR + r")"


def templated(me):
    """parametric field names become name templates: a `&str` parameter used as the field name is
    written "{param}", `format!("Bug-{}", vendor).as_str()` is written "Bug-{vendor}" """
    b = me.body
    strs = [n for n, t in me.params if t is not None and re.sub(r"'\w+ ?", "", t) == "&str"]
    for pn in strs:
        b = re.sub(r"(self\.0\.(?:get|get_all|set|insert|remove|contains_key)\()" + pn + r"([,)])",
                   lambda m: m.group(1) + '"{' + pn + '}"' + m.group(2), b)
        b = re.sub(r"(self\.0\.(?:get|get_all|set|insert|remove|contains_key)\()format!\(\"([^\"{}]*)\{\}([^\"{}]*)\"," + pn + r"\)\.as_str\(\)([,)])",
                   lambda m: m.group(1) + '"' + m.group(2) + '{' + pn + '}' + m.group(3) + '"' + m.group(4), b)
    return b


BUGS_SCAN = ('self.0.items().filter_map(|(k,v)|{if k.starts_with("Bug-"){Some((Some(k.strip_prefix("Bug-").unwrap().to_string()),v))}'
             'else if k=="Bug"{Some((None,v))}else{None}})')
HEADER_FIX = ('if self.0.contains_key("Format-Specification"){self.0.rename("Format-Specification","Format");}'
              'if let Some(mut format)=self.0.get("Format"){if!format.ends_with(\'/\'){format.push(\'/\');}'
              'if let Some(rest)=format.strip_prefix("http:"){format=format!("https:{}",rest);}'
              'if KNOWN_FORMATS.contains(&format.as_str()){format=CURRENT_FORMAT.to_string();}self.0.set("Format",format.as_str());}')


def classify_getter(me, helpers, where):
    """returns dict or None (opaque)"""
    b = templated(me)
    # inline private zero-argument helpers: self.helper() -> (its body)
    for hn, hb in helpers.items():
        b = b.replace(f"self.{hn}()", hb)
    b = norm_lambdas(b)
    # base: self.0.get(N) [.or_else(||self.0.get(N2))]
    m = re.match(r"self\.0\.get\(" + NAME + r"\)(?:\.or_else\(\|\|self\.0\.get\(" + NAME + r"\)\))?", b)
    if m:
        names = [lit(m.group(1), where)] + ([lit(m.group(2), where)] if m.group(2) else [])
        rest = b[m.end():]
        rest = re.sub(r"^\.as_deref\(\)|^\.as_ref\(\)", "", rest)
        absent = "none"
        for suf, mode in ((".unwrap_or_default()", "default"), (".unwrap_or(false)", "default")):
            if rest.endswith(suf):
                rest, absent = rest[:-len(suf)], mode
        shape, strict = None, False
        if rest == "":
            shape = ("str",)
        else:
            mm = re.fullmatch(r"\.(map|and_then)\((.*)\)", rest, flags=re.S)
            if mm:
                lam = mm.group(2)
                lam = re.sub(r"^\|_1\|", "", lam)
                if lam.endswith(",") :
                    lam = lam[:-1]
                got = GET_LAMBDAS.get(lam)
                if got:
                    shape, strict = got
                    if mm.group(1) == "and_then" and shape not in (("typed",), ("dateYmd",), ("licenseText",)):
                        shape = None
            else:
                # FilesParagraph::files / copyright: get(N).unwrap()… , get(N).unwrap_or_default()…
                mm = re.fullmatch(r"\.(unwrap\(\)|unwrap_or_default\(\))(\..*)", rest, flags=re.S)
                if mm:
                    got = GET_LAMBDAS.get("_1" + mm.group(2).replace("|_1|", "|_2|").replace("_1.", "_2."))
                    if got:
                        shape, strict = got
                        # `get(N).unwrap_or_default().split(…)`: an absent field is read like an empty one
                        absent = "panic" if mm.group(1) == "unwrap()" else "empty"
        if shape is None:
            return None
        if shape == ("typed",):
            shape = ("typed", short_type(inner_type(me.ret)))
        if shape[0] == "list" and shape[3] == "ELEM":
            shape = ("list", shape[1], shape[2], short_type(inner_type(inner_type(me.ret))))
        return {"kind": "get", "op": "get", "clearOp": "none", "names": names, "shape": shape,
                "strict": strict, "absent": absent, "optional": False}
    # DEP-3 bugs(): every `Bug` / `Bug-<vendor>` item, in order
    if b == BUGS_SCAN:
        return {"kind": "get", "op": "items", "clearOp": "none", "names": [], "shape": ("bugsScan",),
                "strict": False, "absent": "default", "optional": False}
    # the first paragraph / the paragraphs with field N but without field X
    if re.fullmatch(r"self\.0\.paragraphs\(\)\.next\(\)\.map\((\w+)\)", b):
        return {"kind": "get", "op": "paragraphs", "clearOp": "none", "names": [], "shape": ("firstPara",),
                "strict": False, "absent": "none", "optional": False}
    m = re.fullmatch(r"self\.0\.paragraphs\(\)\.filter\(\|_1\|!_1\.contains_key\(" + NAME + r"\)&&_1\.contains_key\(" + NAME + r"\)\)\.map\((\w+)\)", b)
    if m:
        return {"kind": "get", "op": "paragraphs", "clearOp": "none", "names": [lit(m.group(2), where)],
                "shape": ("filterParaWithout", lit(m.group(1), where)), "strict": False, "absent": "default", "optional": False}
    m = re.fullmatch(r"self\.0\.paragraphs\(\)\.skip\(1\)\.filter\(\|_1\|!_1\.contains_key\(" + NAME + r"\)&&_1\.contains_key\(" + NAME + r"\)\)\.map\((\w+)\)", b)
    if m:
        return {"kind": "get", "op": "paragraphs", "clearOp": "none", "names": [lit(m.group(2), where)],
                "shape": ("filterParaWithoutTail", lit(m.group(1), where)), "strict": False, "absent": "default", "optional": False}
    m = re.fullmatch(r"self\.0\.paragraphs\(\)\.skip\(1\)\.filter\(\|_1\|_1\.contains_key\(" + NAME + r"\)\)\.map\((\w+)\)", b)
    if m:
        return {"kind": "get", "op": "paragraphs", "clearOp": "none", "names": [lit(m.group(1), where)],
                "shape": ("filterParaTail",), "strict": False, "absent": "default", "optional": False}
    # first `Vcs-<X>` field other than Vcs-Browser, through Vcs::from_field(<X>, value)
    if b == 'for(name,value)in self.0.items(){if name=="Vcs-Browser"{continue;}if let Some(vcs)=name.strip_prefix("Vcs-"){return crate::vcs::Vcs::from_field(vcs,&value).ok();}}None':
        return {"kind": "get", "op": "items", "clearOp": "none", "names": [], "shape": ("vcsScan",),
                "strict": False, "absent": "none", "optional": False}
    m = re.fullmatch(r"self\.0\.get_all\(" + NAME + r"\)\.collect\(\)", b)
    if m:
        return {"kind": "get", "op": "getAll", "clearOp": "none", "names": [lit(m.group(1), where)],
                "shape": ("list", "fields", False, "str"), "strict": False, "absent": "default", "optional": False}
    # paragraph-level lookups of the document views
    m = re.fullmatch(r"self\.0\.paragraphs\(\)\.find\(\|_1\|_1\.get\(" + NAME + r"\)\.is_some\(\)\)\.map\((\w+)\)", b)
    if m:
        return {"kind": "get", "op": "paragraphs", "clearOp": "none", "names": [lit(m.group(1), where)],
                "shape": ("findPara",), "strict": False, "absent": "none", "optional": False}
    m = re.fullmatch(r"self\.0\.paragraphs\(\)\.filter\(\|_1\|_1\.(?:get\(" + NAME + r"\)\.is_some\(\)|contains_key\(" + NAME + r"\))\)\.map\((\w+)\)", b)
    if m:
        return {"kind": "get", "op": "paragraphs", "clearOp": "none", "names": [lit(m.group(1) or m.group(2), where)],
                "shape": ("filterPara",), "strict": False, "absent": "default", "optional": False}
    return None


def arg_shape(expr, params, where):
    """the text a setter writes, as a function of its parameters -> (shape, param) or None"""
    ptypes = dict((n, t) for n, t in params if t is not None)
    e = norm_lambdas(expr)
    if re.fullmatch(STR, e):
        return ("const", lit(e, where)), None
    m = re.fullmatch(r"(\w+)", e)
    if m and m.group(1) in ptypes:
        t = ptypes[m.group(1)]
        if t in ("&str", "&String"):
            return ("str",), m.group(1)
    m = re.fullmatch(r"&?(\w+)\.to_string\(\)(?:\.as_str\(\))?|(\w+)\.as_str\(\)|(\w+)\.as_ref\(\)", e)
    if m:
        p = m.group(1) or m.group(2) or m.group(3)
        if p in ptypes:
            return ("typed", short_type(inner_type(ptypes[p]) if ptypes[p].startswith("Option<") else ptypes[p])), p
    for sep_lit, sep in (('", "', "comma"), ('" "', "space"), ('"\\n"', "nl")):
        m = re.fullmatch(r"&(\w+)\.join\(" + re.escape(sep_lit) + r"\)", e)
        if m and m.group(1) in ptypes:
            return ("list", sep, False, "str"), m.group(1)
        m = re.fullmatch(r"&?(\w+)\.iter\(\)\.map\(\|_1\|_1\.to_string\(\)\)\.collect\(\)\.join\(" + re.escape(sep_lit) + r"\)(?:\.as_str\(\))?", e)
        if m and m.group(1) in ptypes:
            et = short_type(inner_type(ptypes[m.group(1)]))
            if ptypes[m.group(1)] in ("&[&str]", "Vec<String>", "&[String]"):
                et = "str"
            return ("list", sep, False, et), m.group(1)
    m = re.fullmatch(r'if (\w+)\{"yes"\}else\{"no"\}', e)
    if m and ptypes.get(m.group(1)) == "bool":
        return ("flagYesNo",), m.group(1)
    m = re.fullmatch(r"(\w+)\.to_rfc2822\(\)\.as_str\(\)", e)
    if m and m.group(1) in ptypes:
        return ("rfc2822",), m.group(1)
    m = re.fullmatch(r'(\w+)\.format\("%Y-%m-%d"\)\.to_string\(\)\.as_str\(\)', e)
    if m and m.group(1) in ptypes:
        return ("dateYmd",), m.group(1)
    m = re.fullmatch(r"crate::fields::format_origin\(&(\w+),&(\w+)\)\.as_str\(\)", e)
    if m:
        return ("originField",), m.group(2)
    return None


MUT = r"self\.0\.(set|insert)\(" + NAME + r",(.*?)\);"

LICENSE_SET = {
    'let text=match license{License::Name(name)=>name.to_string(),License::Named(name,text)=>format!("{}\\n{}",name,text),License::Text(text)=>text.to_string(),};self.0.set("License",&text);': "licenseBareText",
    'let text=match license{License::Name(name)=>name.to_string(),License::Named(name,text)=>format!("{}\\n{}",name,text),License::Text(text)=>format!("\\n{}",text),};self.0.set("License",&text);': "license",
}


def classify_setter(me, where):
    b = templated(me)
    base = {"kind": "set", "clearOp": "none", "strict": False, "absent": "none", "optional": False}
    # 1. a single mutation
    m = re.fullmatch(MUT, b, flags=re.S)
    if m and "self.0." not in m.group(3):
        got = arg_shape(m.group(3).rstrip(","), me.params, where)
        if got and got[0][0] != "const":
            return dict(base, op=m.group(1), names=[lit(m.group(2), where)], shape=got[0])
    # 2. Option argument: Some -> set/insert, None -> remove
    m = re.fullmatch(r"if let Some\((\w+)\)=(\w+)\{" + MUT + r"\}else\{self\.0\.remove\(" + NAME + r"\);\}", b, flags=re.S)
    if m and m.group(1) == m.group(2) and m.group(4) == m.group(6):
        params = [(n, (inner_type(t) if n == m.group(2) and t and t.startswith("Option<") else t)) for n, t in me.params]
        got = arg_shape(m.group(5).rstrip(","), params, where)
        if got and got[0][0] != "const":
            return dict(base, op=m.group(3), clearOp="remove", names=[lit(m.group(4), where)], shape=got[0], optional=True)
    # 3. flag: true -> "yes", false -> remove
    m = re.fullmatch(r'if (\w+)\{self\.0\.(set|insert)\(' + NAME + r',"yes"\);\}else\{self\.0\.remove\(' + NAME + r"\);\}", b)
    if m and m.group(3) == m.group(4):
        return dict(base, op=m.group(2), clearOp="remove", names=[lit(m.group(3), where)], shape=("flagYesOrRemove",))
    # 4. license
    if b in LICENSE_SET:
        return dict(base, op="set", names=["License"], shape=(LICENSE_SET[b],))
    # 5. one of two names.  `names` is the order in which the fields are looked for (the first one present
    #    is written), `dflt` the name written when none is present.
    #    old form: if contains(B) { op(B, x) } else { op(A, x) }             -> names [B, A], dflt A
    m = re.fullmatch(r"if self\.0\.contains_key\(" + NAME + r"\)\{self\.0\.(set|insert)\(" + NAME + r",(\w+)\);\}else\{self\.0\.(set|insert)\(" + NAME + r",(\w+)\);\}", b)
    if m and m.group(1) == m.group(3) and m.group(2) == m.group(5) and m.group(4) == m.group(7):
        got = arg_shape(m.group(4), me.params, where)
        if got and got[0] == ("str",):
            return dict(base, op=m.group(2), names=[lit(m.group(1), where), lit(m.group(6), where)], shape=("str",),
                        dflt=lit(m.group(6), where))
    #    new form: if contains(A) || !contains(B) { op(A, x) } else { op(B, x) } -> names [A, B], dflt A
    m = re.fullmatch(r"if self\.0\.contains_key\(" + NAME + r"\)\|\|!self\.0\.contains_key\(" + NAME + r"\)\{self\.0\.(set|insert)\(" + NAME + r",(\w+)\);\}else\{self\.0\.(set|insert)\(" + NAME + r",(\w+)\);\}", b)
    if m and m.group(1) == m.group(4) and m.group(2) == m.group(7) and m.group(3) == m.group(6) and m.group(5) == m.group(8) \
            and m.group(1) != m.group(2):
        got = arg_shape(m.group(5), me.params, where)
        if got and got[0] == ("str",):
            return dict(base, op=m.group(3), names=[lit(m.group(1), where), lit(m.group(2), where)], shape=("str",),
                        dflt=lit(m.group(1), where))
    # 5b. first line / remaining lines of one of two fields (DEP-3 Description / Subject):
    #     if let Some(o) = get(A) { set(A, F(o, x)) } else if let Some(o) = get(B) { set(B, F(o, x)) } else { set(D, x) }
    P = me.params[1][0] if len(me.params) == 2 else None
    if P:
        first_br = (r"let new=match VAR\.split_once\('\\n'\)\{Some\(\(_,rest\)\)=>format!\(\"\{\}\\n\{\}\"," + P + r",rest\),None=>" + P
                    + r"\.to_string\(\),\};self\.0\.set\(NM,new\.as_str\(\)\);")
        rest_br = (r"let first_line=VAR\.split_once\('\\n'\)\.map\(\|x\|x\.0\)\.unwrap_or\(VAR\.as_str\(\)\);let new=if " + P
                   + r"\.is_empty\(\)\{first_line\.to_string\(\)\}else\{format!\(\"\{\}\\n\{\}\",first_line," + P
                   + r"\)\};self\.0\.set\(NM,new\.as_str\(\)\);")
        for br, tag in ((first_br, "firstLine"), (rest_br, "restLines")):
            rx = (r"if let Some\((?P<v1>\w+)\)=self\.0\.get\((?P<g1>" + STR + r")\)\{" + br.replace("VAR", "(?P=v1)").replace("NM", "(?P<n1>" + STR + ")") + r"\}"
                  r"else if let Some\((?P<v2>\w+)\)=self\.0\.get\((?P<g2>" + STR + r")\)\{" + br.replace("VAR", "(?P=v2)").replace("NM", "(?P<n2>" + STR + ")") + r"\}"
                  r"else\{self\.0\.set\((?P<d>" + STR + r")," + P + r"\);\}")
            m = re.fullmatch(rx, b)
            if m and m.group("g1") == m.group("n1") and m.group("g2") == m.group("n2") and m.group("g1") != m.group("g2") \
                    and m.group("d") in (m.group("g1"), m.group("g2")) and dict(me.params[1:]).get(P) == "&str":
                return dict(base, op="set", names=[lit(m.group("g1"), where), lit(m.group("g2"), where)], shape=(tag,),
                            dflt=lit(m.group("d"), where))
    # 5c. environment: sorted `KEY=value` lines
    if b == 'let mut vars=env.iter().map(|(key,value)|format!("{}={}",key,value)).collect::<Vec<_>>();vars.sort();self.0.set("Environment",&vars.join("\\n"));':
        return dict(base, op="set", names=["Environment"], shape=("envMap",))
    # 6. paragraph-level: add_paragraph + set(N, name)
    m = re.fullmatch(r"let mut (\w+)=self\.0\.add_paragraph\(\);\1\.set\(" + NAME + r",(\w+)\);(\w+)\(\1\)", b)
    if m:
        return dict(base, kind="set", op="addParagraph", names=[lit(m.group(2), where)], shape=("addPara",))
    # 7. composite: every mutation is the same op on a literal name; the written text is not modelled
    muts = re.findall(r"self\.0\.(set|insert|remove|rename)\((.*?)[,)]", b)
    if muts and all(re.fullmatch(STR, a) for _, a in muts):
        ops = sorted(set(o for o, _ in muts))
        names = []
        for _, a in muts:
            n = lit(a, where)
            if n not in names:
                names.append(n)
        if len(ops) == 1 and ops[0] in ("set", "insert"):
            return dict(base, op=ops[0], names=names, shape=("composite",))
    return None


def classify_other(me, where, accessor_names):
    """&mut self methods that are not setters, &self methods built from other accessors"""
    b = me.body
    if b == HEADER_FIX:
        return {"kind": "other", "op": "rename", "clearOp": "none", "names": ["Format-Specification", "Format"],
                "shape": ("headerFix",), "strict": False, "absent": "none", "optional": False}
    muts = re.findall(r"self\.0\.(set|insert|remove|rename|contains_key|get)\((.*?)[,)]", b)
    if muts and all(re.fullmatch(STR, a) for _, a in muts) and any(o in ("set", "insert", "remove", "rename") for o, _ in muts):
        names = []
        for _, a in muts:
            n = lit(a, where)
            if n not in names:
                names.append(n)
        op = "rename" if any(o == "rename" for o, _ in muts) else [o for o, _ in muts if o in ("set", "insert", "remove")][0]
        return {"kind": "other", "op": op, "clearOp": "none", "names": names, "shape": ("composite",),
                "strict": False, "absent": "none", "optional": False}
    if "self.0." not in b and re.search(r"\bself\.(\w+)\(", b):
        called = set(re.findall(r"\bself\.(\w+)\(", b))
        if called <= accessor_names:
            return {"kind": "other", "op": "none", "clearOp": "none", "names": [], "shape": ("derived",),
                    "strict": False, "absent": "none", "optional": False}
    return None


SKIP_METHODS = {"as_deb822", "as_mut_deb822", "as_deb822_mut", "wrap_and_sort", "write"}


def touches(me):
    return re.search(r"\bself\.0\.(" + "|".join(PARA_OPS) + r")\(", me.body) is not None


def extract_accessors(srcs):
    rows, skipped = [], []
    for mod, rel in ACC_FILES:
        src = srcs(rel)
        views = view_structs(src)
        if not views:
            fail(f"{rel}: no newtype view over Paragraph/Deb822 found")
        for ty in views:
            methods = impl_methods(src, ty)
            names = {m.name for m in methods}
            helpers = {}
            for me in methods:
                if not me.public and receiver(me) == "ref" and len(me.params) == 1 and re.fullmatch(r"self\.0\.get\(" + STR + r"\)(\.or_else\(\|\|self\.0\.get\(" + STR + r"\)\))?", me.body):
                    helpers[me.name] = me.body
            for me in methods:
                view = f"{mod}.{ty}"
                where = f"{rel}:{me.line}"
                rc = receiver(me)
                direct = touches(me)
                uses_helper = any(f"self.{h}()" in me.body for h in helpers)
                calls_acc = bool(set(re.findall(r"\bself\.(\w+)\(", me.body)) & (names - SKIP_METHODS))
                if not me.public:
                    if me.name not in helpers:
                        skipped.append((view, me.name, where, "private"))
                    continue
                if rc is None or me.name in SKIP_METHODS or not (direct or uses_helper or calls_acc):
                    skipped.append((view, me.name, where, "no receiver" if rc is None else "does not touch the paragraph"))
                    continue
                got = None
                if rc == "ref" and me.ret is not None and (direct or uses_helper):
                    got = classify_getter(me, helpers, where)
                elif rc == "mut" and (me.name.startswith("set_") or me.name.startswith("add_")):
                    got = classify_setter(me, where)
                if got is None:
                    got = classify_other(me, where, names)
                if got is None:
                    kind = "get" if (rc == "ref" and me.ret is not None) else ("set" if me.name.startswith("set_") else "other")
                    ops = re.findall(r"\bself\.0\.(" + "|".join(PARA_OPS) + r")\(", me.body)
                    got = {"kind": kind, "op": PARA_OPS[ops[0]] if ops else "none", "clearOp": "none",
                           "names": [lit(x, where) for x in re.findall(r"self\.0\.\w+\((" + STR + r")", me.body)],
                           "shape": ("opaque",), "strict": False, "absent": "none", "optional": False}
                got.setdefault("dflt", got["names"][0] if got["kind"] == "set" and got["names"] else "")
                got.update(view=view, method=me.name, site=where, feature=me.feature,
                           params=[f"{n}:{t}" for n, t in me.params if t is not None], ret=me.ret)
                rows.append(got)
    return rows, skipped


def shape_tag(sh):
    return sh[0]


def lean_shape(sh):
    if sh[0] == "typed":
        return f"(.typed {lean_str(sh[1])})"
    if sh[0] == "list":
        elem = ".str" if sh[3] == "str" else f"(.typed {lean_str(sh[3])})"
        return f"(.list .{sh[1]} {'true' if sh[2] else 'false'} {elem})"
    if sh[0] in ("filterParaWithout", "filterParaWithoutTail"):
        return f"(.{sh[0]} {lean_str(sh[1])})"
    return f".{sh[0]}"


def json_shape(sh):
    if sh[0] == "typed":
        return {"tag": "typed", "ty": sh[1]}
    if sh[0] == "list":
        return {"tag": "list", "sep": sh[1], "trim": sh[2], "elem": sh[3]}
    if sh[0] in ("filterParaWithout", "filterParaWithoutTail"):
        return {"tag": sh[0], "ty": sh[1]}
    return {"tag": sh[0]}


def emit_acc_lean(rows, skipped):
    L = []
    L.append("import Deb822Verif.Model.TypedRow")
    L.append("/-!")
    L.append("  GENERATED by tools/translate.py accessors from the Rust sources of /repo — do not edit.")
    L.append("  Plain data only. Regenerated on every `./check C15`.")
    L.append(f"  {len(rows)} rows ({sum(1 for r in rows if r['shape'][0] == 'opaque')} opaque); {len(skipped)} methods skipped (constructors, raw paragraph access, I/O).")
    L.append("-/")
    L.append("namespace Deb822Verif.Gen.Accessors")
    L.append("open Deb822Verif.Typed")
    L.append("")
    L.append("def rows : List Row := [")
    for i, r in enumerate(rows):
        names = "[" + ", ".join(lean_str(n) for n in r["names"]) + "]"
        L.append(f"  -- {r['site']}")
        L.append(f"  ⟨{lean_str(r['view'])}, {lean_str(r['method'])}, .{r['kind']}, .{r['op']}, .{r['clearOp']}, {names}, "
                 f"{lean_shape(r['shape'])}, {'true' if r['strict'] else 'false'}, .{r['absent']}, {'true' if r['optional'] else 'false'}, {lean_str(r['dflt'])}⟩"
                 + ("," if i + 1 < len(rows) else ""))
    L.append("]")
    L.append("")
    cur, known = COPYRIGHT_CONSTS
    L.append("/-- `CURRENT_FORMAT` / `KNOWN_FORMATS` of debian-copyright/src/lib.rs (used by `Header::fix`) -/")
    L.append(f"def copyrightCurrentFormat : Str := {lean_str(cur)}")
    L.append("def copyrightKnownFormats : List Str := [" + ", ".join(lean_str(k) for k in known) + "]")
    L.append("")
    L.append("end Deb822Verif.Gen.Accessors")
    return "\n".join(L) + "\n"


def emit_acc_json(rows, skipped):
    return json.dumps({
        "generated_by": "tools/translate.py accessors",
        "rows": [{"view": r["view"], "method": r["method"], "kind": r["kind"], "op": r["op"], "clear_op": r["clearOp"],
                  "names": r["names"], "shape": json_shape(r["shape"]), "strict": r["strict"], "absent": r["absent"],
                  "optional": r["optional"], "default": r["dflt"], "site": r["site"], "params": r["params"], "ret": r["ret"],
                  "feature": r["feature"]} for r in rows],
        "skipped": [{"view": v, "method": m, "site": s, "why": w} for v, m, s, w in skipped],
    }, indent=1, ensure_ascii=True) + "\n"


ACC_POISON = """import Deb822Verif.Model.TypedRow
/-! GENERATED by tools/translate.py accessors — the translator FAILED on the current /repo sources:

{msg}

This file deliberately does not compile, so that no proof is accepted over stale tables. -/
namespace Deb822Verif.Gen.Accessors
theorem translator_failed : (0 : Nat) = 1 := by decide
end Deb822Verif.Gen.Accessors
"""


COPYRIGHT_CONSTS = (None, [])


def extract_copyright_consts(srcs):
    src = srcs("debian-copyright/src/lib.rs")
    m = re.search(r"pub const CURRENT_FORMAT\s*:\s*&str\s*=\s*(" + STR + r")\s*;", src.code)
    k = re.search(r"pub const KNOWN_FORMATS\s*:\s*&\[&str\]\s*=\s*&\[(.*?)\]\s*;", src.code, flags=re.S)
    if not m or not k:
        fail("debian-copyright/src/lib.rs: CURRENT_FORMAT / KNOWN_FORMATS not found")
    cur = unescape(m.group(1), "debian-copyright/src/lib.rs")
    known = []
    for item in [x.strip() for x in k.group(1).split(",") if x.strip()]:
        if item == "CURRENT_FORMAT":
            known.append(cur)
        elif re.fullmatch(STR, item):
            known.append(unescape(item, "debian-copyright/src/lib.rs"))
        else:
            fail(f"debian-copyright/src/lib.rs: KNOWN_FORMATS element not classifiable: {item!r}")
    return cur, known


def cmd_accessors(update_baseline=False):
    global COPYRIGHT_CONSTS
    cache = {}

    def srcs(rel):
        if rel not in cache:
            cache[rel] = Src(rel)
        return cache[rel]

    try:
        rows, skipped = extract_accessors(srcs)
        COPYRIGHT_CONSTS = extract_copyright_consts(srcs)
    except TranslateError as e:
        print(f"translate accessors: ERROR: {e}", file=sys.stderr)
        write_if_changed(ACC_LEAN, ACC_POISON.format(msg=str(e).replace("-/", "- /")))
        return 1
    opaque = [r for r in rows if r["shape"][0] == "opaque"]
    current = {f"{r['view']}.{r['method']}": shape_tag(r["shape"]) for r in rows}
    if update_baseline or not os.path.exists(ACC_BASE):
        with open(ACC_BASE, "w", encoding="utf-8") as f:
            json.dump({"note": "classified rows of the last accepted translator run; `translate.py accessors` fails when one "
                               "of them becomes opaque or disappears (rewrite with --update-baseline after review)",
                       "rows": current}, f, indent=1, sort_keys=True)
            f.write("\n")
    base = json.load(open(ACC_BASE, encoding="utf-8"))["rows"]
    lost = []
    for key, tag in sorted(base.items()):
        if tag == "opaque":
            continue
        if key not in current:
            lost.append(f"{key}: classified as {tag} in the baseline, no longer present")
        elif current[key] == "opaque":
            lost.append(f"{key}: classified as {tag} in the baseline, now opaque")
        elif current[key] == "composite" and tag != "composite":
            lost.append(f"{key}: classified as {tag} in the baseline, now only composite (written text no longer modelled)")
    new = sorted(k for k in current if k not in base)
    print(f"translate accessors: {len(rows)} rows from {len(ACC_FILES)} files, {len(opaque)} opaque, "
          f"{len(skipped)} methods skipped, {len(new)} not in the baseline")
    for r in opaque:
        print(f"  OPAQUE {r['view']}.{r['method']} ({r['site']}): ops on the paragraph not classifiable; harness only")
    for k in new:
        print(f"  NEW {k}: {current[k]} (not in tools/accessors_baseline.json)")
    if lost:
        msg = "coverage lost against tools/accessors_baseline.json:\n  " + "\n  ".join(lost)
        print(f"translate accessors: ERROR: {msg}", file=sys.stderr)
        write_if_changed(ACC_LEAN, ACC_POISON.format(msg=msg.replace("-/", "- /")))
        return 1
    c1 = write_if_changed(ACC_LEAN, emit_acc_lean(rows, skipped))
    c2 = write_if_changed(ACC_JSON, emit_acc_json(rows, skipped))
    print(f"  {'updated' if c1 or c2 else 'unchanged'} {os.path.relpath(ACC_LEAN, VERIF)}, {os.path.relpath(ACC_JSON, VERIF)}")
    return 0


def main(argv):
    cmds = {"enums": cmd_enums, "structs": cmd_structs, "pins": cmd_pins,
            "accessors": lambda: cmd_accessors(update_baseline="--update-baseline" in argv)}
    todo = [a for a in argv if not a.startswith("--")]
    if not todo or any(a not in cmds for a in todo):
        print(__doc__)
        return 2
    rc = 0
    for a in todo:
        rc = max(rc, cmds[a]() or 0)
    return rc


if __name__ == "__main__":
    sys.exit(main(sys.argv[1:]))
