#!/bin/bash
# Development aid: confirm a seeded change delivered by a sub-agent.
# usage: tools/confirm_seed.sh <dir with out/patch.diff out/demo.rs out/meta.json>
# Steps (all in a scratch worktree of /repo that is removed afterwards):
#   1. demo on the pristine tree must pass
#   2. patch applies; cargo test --workspace --offline must pass with it (without the demo)
#   3. demo with the patch must fail
# Prints one line per step and a final CONFIRMED / REJECTED line; writes <dir>/out/confirm.json.
set -u
D=$(readlink -f "$1")
OUT=$D/out
N=$(basename "$D")
W=/tmp/confirm/$N
rm -rf "$W"; mkdir -p "$W"
git -C /repo worktree add -q --detach "$W/repo" HEAD || exit 2
export CARGO_NET_OFFLINE=true CARGO_TARGET_DIR=$W/target
CRATE=$(python3 -c "import json,sys;print(json.load(open('$OUT/meta.json')).get('demo_crate','.'))")
[ -d "$W/repo/$CRATE" ] || CRATE=.
T=seed_demo_$(echo "$N" | tr -c 'A-Za-z0-9\n' '_')
PKG=$(grep -m1 '^name' "$W/repo/$CRATE/Cargo.toml" | sed 's/.*"\(.*\)".*/\1/')
mkdir -p "$W/repo/$CRATE/tests"
cp "$OUT/demo.rs" "$W/repo/$CRATE/tests/$T.rs"
cd "$W/repo"
P1=$(cargo test --offline -p "$PKG" --all-features --test "$T" 2>&1 | grep -E "^test result|error(\[|:)" | head -3 | tr '\n' ' ')
echo "pristine demo: $P1"
rm -f "$CRATE/tests/$T.rs"
if ! git apply "$OUT/patch.diff"; then echo "REJECTED patch does not apply"; cd /; git -C /repo worktree remove --force "$W/repo"; rm -rf "$W"; exit 1; fi
S=$(cargo test --workspace --no-fail-fast --offline 2>&1 | grep -E "^test result|error(\[|:)" | awk '/^test result/ {p+=$4; f+=$6} /error/ {e++} END {printf "%d passed %d failed %d errors", p, f, e}')
echo "patched suite: $S"
cp "$OUT/demo.rs" "$CRATE/tests/$T.rs"
P2=$(cargo test --offline -p "$PKG" --all-features --test "$T" 2>&1 | grep -E "^test result|error(\[|:)" | head -3 | tr '\n' ' ')
echo "patched demo: $P2"
rm -f "$CRATE/tests/$T.rs"
OK=1
echo "$P1" | grep -q "test result: ok" || OK=0
echo "$S" | grep -q " 0 failed 0 errors" || OK=0
echo "$P2" | grep -q "FAILED" || OK=0
python3 - "$OUT/confirm.json" "$P1" "$S" "$P2" "$OK" <<'E'
import json,sys
json.dump({"pristine_demo":sys.argv[2].strip(),"patched_workspace_suite":sys.argv[3],"patched_demo":sys.argv[4].strip(),"confirmed":sys.argv[5]=="1"},open(sys.argv[1],"w"),indent=1)
E
cd /
git -C /repo worktree remove --force "$W/repo"
rm -rf "$W"
[ $OK = 1 ] && echo "CONFIRMED $N" || echo "REJECTED $N"
