#!/bin/sh
# Build the framework from files on disk only (offline): Lean model+proofs+driver, Rust harness.
set -e
cd "$(dirname "$0")/.."
export CARGO_NET_OFFLINE=true
(cd lean && lake build Deb822Verif model)
[ -f harness/Cargo.lock ] || cp /repo/Cargo.lock harness/Cargo.lock
(cd harness && cargo build --release --offline)
mkdir -p work replays evidence
