#!/bin/sh
# Build the framework from files on disk only (offline): Lean model + driver + every theorem module
# named in lean/props.json (so that the first run of a check does not pay for the proofs), Rust harness.
set -e
cd "$(dirname "$0")/.."
export CARGO_NET_OFFLINE=true
MODS=$(python3 -c "
import json
p=json.load(open('lean/props.json'))
m=[]
for v in p.values():
    m.append(v['module']); m+=v.get('extra_modules') or []
print(' '.join(dict.fromkeys(m)))")
(cd lean && lake build Deb822Verif model $MODS)
[ -f harness/Cargo.lock ] || cp /repo/Cargo.lock harness/Cargo.lock
(cd harness && cargo build --release --offline)
mkdir -p work replays evidence
