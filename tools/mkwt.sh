#!/bin/bash
# Development aid: a git worktree of /verif for a proof agent, with a warm copy of the build products.
# usage: tools/mkwt.sh <name>        -> /root/wt/<name> on branch proof-<name>
set -e
N=$1
W=/root/wt/$N
mkdir -p /root/wt
git -C /verif worktree add -q -b proof-$N $W HEAD
cp -r /verif/lean/.lake $W/lean/.lake
mkdir -p $W/harness && cp -r /verif/harness/target $W/harness/target 2>/dev/null || true
cp /verif/harness/Cargo.lock $W/harness/Cargo.lock 2>/dev/null || true
mkdir -p $W/work $W/replays
echo $W
