#!/usr/bin/env python3
"""Development aid: three-way merge of lean/props.json during `git merge` (run while the file is
unmerged): theorems / list fields are unioned (ours first), text fields changed on both sides keep
ours and append what theirs added relative to the base."""
import json, subprocess, sys
def show(stage):
    return json.loads(subprocess.run(["git", "show", f":{stage}:lean/props.json"], capture_output=True, text=True, check=True).stdout)
b, o, t = show(1), show(2), show(3)
res = json.loads(json.dumps(o))
def cp(a, c):
    i = 0
    while i < min(len(a), len(c)) and a[i] == c[i]:
        i += 1
    return i
for pid in t:
    if pid not in res:
        res[pid] = t[pid]; continue
    for k, v in t[pid].items():
        bv = b.get(pid, {}).get(k); ov = o[pid].get(k)
        if v == bv or v == ov:
            continue
        if ov == bv:
            res[pid][k] = v; continue
        if k == "theorems":
            names = {x["theorem"] for x in ov}
            theirs = {x["theorem"]: x for x in v}
            base = {x["theorem"]: x for x in (bv or [])}
            merged = []
            for x in ov:
                y = theirs.get(x["theorem"])
                # an entry changed only by theirs (kind / clause) takes theirs
                merged.append(y if y is not None and base.get(x["theorem"]) == x and y != x else x)
            res[pid][k] = merged + [x for x in v if x["theorem"] not in names]
        elif isinstance(v, list):
            res[pid][k] = (ov or []) + [x for x in v if x not in (ov or [])]
        elif isinstance(v, str) and isinstance(ov, str):
            tail = v[cp(bv or "", v):]
            print("BOTH CHANGED", pid, k, "| theirs adds:", tail[:200], file=sys.stderr)
            res[pid][k] = ov + ("" if tail in ov else " " + tail.lstrip("; ").join(["; ", ""]) if False else ("" if tail in ov else "; " + tail.lstrip("; ")))
        else:
            print("CONFLICT kept ours", pid, k, file=sys.stderr)
json.dump(res, open("lean/props.json", "w"), indent=1)
