#!/usr/bin/env python3
"""gen_typed_lines.py — print the `acc!` / `getter!` / `setter!` registry lines of harness/src/typed.rs
from harness/gen/accessors.json (convenience for adding lines when /repo grows new accessors; the
checked-in lines in typed.rs are the ones that are compiled, `acc.row` reports rows without a line).
"""
import json, os, re, sys

VERIF = os.path.dirname(os.path.dirname(os.path.abspath(__file__)))
rows = json.load(open(os.path.join(VERIF, "harness", "gen", "accessors.json")))["rows"]

TYPES = {
    "Priority": "Priority", "MultiArch": "MultiArch", "debversion::Version": "Version", "Relations": "Relations",
    "usize": "usize", "bool": "bool", "Vec<String>": "Vec<String>", "url::Url": "Url",
    "Vec<Md5Checksum>": "Vec<Md5Checksum>", "Vec<Sha1Checksum>": "Vec<Sha1Checksum>",
    "Vec<Sha256Checksum>": "Vec<Sha256Checksum>", "Vec<Sha512Checksum>": "Vec<Sha512Checksum>",
    "chrono::DateTime<chrono::FixedOffset>": "DateTime<FixedOffset>", "chrono::NaiveDate": "NaiveDate",
    "std::collections::HashMap<String,String>": "HashMap<String, String>", "License": "License",
    "Forwarded": "Forwarded", "AppliedUpstream": "AppliedUpstream",
}


def arg(params):
    """-> (wire type, passing mode) or None"""
    if len(params) == 2 and params[0].startswith("category:"):
        return "(Option<OriginCategory>, Origin)", "origin"
    if len(params) != 1:
        return None
    t = params[0].split(":", 1)[1]
    if t == "&str":
        return "String", "str"
    if t == "Option<&str>":
        return "Option<String>", "optstr"
    if t == "&[&str]":
        return "Vec<String>", "slice"
    m = re.fullmatch(r"Option<&(.*)>", t)
    if m and m.group(1) in TYPES:
        return f"Option<{TYPES[m.group(1)]}>", "optref"
    m = re.fullmatch(r"Option<(.*)>", t)
    if m and m.group(1) in TYPES:
        return f"Option<{TYPES[m.group(1)]}>", "val"
    if t.startswith("&") and t[1:] in TYPES:
        return TYPES[t[1:]], "refv"
    if t in TYPES:
        return TYPES[t], "val"
    return None


by = {(r["view"], r["method"]): r for r in rows}
done = set()
for r in rows:
    v, m = r["view"], r["method"]
    vid = v.replace(".", "_")
    if r["kind"] == "get" and r["op"] in ("get", "getAll"):
        s = by.get((v, "set_" + m))
        a = arg(s["params"]) if s else None
        if s and a:
            print(f'    acc!({vid}, "{v}", {m}, set_{m}, {a[0]}, {a[1]}),')
            done.add((v, "set_" + m))
        else:
            print(f'    getter!({vid}, "{v}", {m}),')
    elif r["kind"] == "set" and (v, m) not in done and r["op"] in ("set", "insert"):
        a = arg(r["params"])
        if a and not any(rr["view"] == v and "set_" + rr["method"] == m for rr in rows):
            print(f'    setter!({vid}, "{v}", {m}, {a[0]}, {a[1]}),')
        elif not a:
            print(f'    // TODO {v}.{m}: {r["params"]}', file=sys.stderr)
