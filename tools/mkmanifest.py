#!/usr/bin/env python3
"""Regenerate MANIFEST.json from lean/props.json (claimed checks) and properties.jsonl (the rest
stays under not_applicable with the reason recorded in tools/not_claimed.json)."""
import json, os
V = os.path.dirname(os.path.dirname(os.path.abspath(__file__)))
props = [json.loads(l) for l in open(os.path.join(V, "properties.jsonl"))]
cfg = json.load(open(os.path.join(V, "lean", "props.json")))
nc_path = os.path.join(V, "tools", "not_claimed.json")
nc = json.load(open(nc_path)) if os.path.exists(nc_path) else {}
hooks_path = os.path.join(V, "tools", "hooks.json")
hooks = json.load(open(hooks_path)) if os.path.exists(hooks_path) else {
    "guard": "verif-hooks", "enable": "no hook is needed so far: the harness uses only public API of the crates",
    "baseline_off_cmd": "cd /repo && cargo test --workspace --no-fail-fast --offline", "source_commits": [], "add_only": True}
checks = []
for p in props:
    pid = p["id"]
    if pid not in cfg:
        continue
    c = cfg[pid]
    checks.append({
        "property_id": pid,
        "quick_cmd": f"./check {pid} --tier quick",
        "thorough_cmd": f"./check {pid} --tier thorough",
        "evidence_file": f"evidence/{pid}.json",
        "replay_cmd_template": f"./check {pid} --replay {{path}}",
        "engine": "lean4-proof+correspondence",
        "level_claimed": {"category": "proof", "text": c.get("level_text", ""), "design_ref": c.get("design_ref", f"DESIGN.md section 4, {pid}")},
        "level_note": c.get("level_note", ""),
        "technique": c.get("technique", "Lean 4 theorems about an executable model; model tied to /repo by differential correspondence (line protocol) on every run"),
    })
m = {
    "version": 1,
    "setup_cmd": "./tools/setup.sh",
    "hooks": hooks,
    "engines": [{"name": "lean4-proof+correspondence", "path": "lean/ harness/ check tools/",
                 "serves_properties": [c["property_id"] for c in checks],
                 "kind_free_text": "Lean 4 (core only) model + theorems, axiom audit, Rust correspondence harness calling the real crates in-process, Lean model driver answering the same request lines"}],
    "checks": checks,
    "notes": "See DESIGN.md. Known findings: known_findings.json. Seeded mutations: seeded/.",
    "not_applicable": [{"property_id": p["id"], "reason": nc.get(p["id"], "check not built yet (work in progress; the technique applies, see DESIGN.md section 4)")}
                       for p in props if p["id"] not in cfg],
}
json.dump(m, open(os.path.join(V, "MANIFEST.json"), "w"), indent=1)
print("claimed:", [c["property_id"] for c in checks])
