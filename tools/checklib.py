import threading, sys, os, json, subprocess, time, hashlib, re, resource, shutil, tempfile
from concurrent.futures import ThreadPoolExecutor

VERIF = os.path.dirname(os.path.dirname(os.path.abspath(__file__)))
LEAN = os.path.join(VERIF, "lean")
HARNESS = os.path.join(VERIF, "harness")
WORK = os.path.join(VERIF, "work")
REPLAYS = os.path.join(VERIF, "replays")
EVID = os.path.join(VERIF, "evidence")
MODEL_BIN = os.path.join(LEAN, ".lake", "build", "bin", "model")
HARNESS_BIN = os.path.join(HARNESS, "target", "release", "harness")
NCPU = min(16, os.cpu_count() or 4)
ALLOWED_AXIOMS = {"propext", "Classical.choice", "Quot.sound"}
FORBIDDEN = re.compile(r"\b(sorry|admit|native_decide|bv_decide|implemented_by|unsafe)\b|^\s*axiom\s|maxHeartbeats\s+0")

ENV = dict(os.environ, CARGO_NET_OFFLINE="true")


def log(*a):
    print(*a, file=sys.stderr, flush=True)


def run(cmd, cwd=None, timeout=None, env=None):
    p = subprocess.run(cmd, cwd=cwd, stdout=subprocess.PIPE, stderr=subprocess.STDOUT, text=True,
                       timeout=timeout, env=env or ENV)
    return p.returncode, p.stdout


def load_props():
    return json.load(open(os.path.join(LEAN, "props.json")))


def load_findings():
    p = os.path.join(VERIF, "known_findings.json")
    if not os.path.exists(p):
        return []
    return json.load(open(p))


# ----------------------------------------------------------------------------- prove

def strip_comments(src):
    # remove /- ... -/ (nested not handled beyond one level, good enough for an audit grep) and -- ...
    src = re.sub(r"/-.*?-/", "", src, flags=re.S)
    src = re.sub(r"--.*", "", src)
    # string literals may legitimately contain the words
    src = re.sub(r'"(\\.|[^"\\])*"', '""', src)
    return src


def source_audit():
    bad = []
    for root, _, files in os.walk(LEAN):
        if ".lake" in root:
            continue
        for f in files:
            if f.endswith(".lean"):
                path = os.path.join(root, f)
                for i, line in enumerate(strip_comments(open(path).read()).split("\n")):
                    if FORBIDDEN.search(line):
                        bad.append(f"{os.path.relpath(path, LEAN)}:{i+1}: {line.strip()}")
    return bad


def prove(pid, cfg, tier):
    """returns dict(obligations, discharged, failed:[...], build_ok, log)"""
    module = cfg["module"]
    theorems = cfg["theorems"]
    res = {"obligations": len(theorems), "discharged": 0, "failed": [], "build_ok": True, "log": "",
           "axioms": {}}
    xmods = list(cfg.get("extra_modules") or [])   # further theorem modules of the same property
    rc, out = run(["lake", "build", module] + xmods + ["model"], cwd=LEAN, timeout=3600)
    res["log"] = out[-4000:]
    if rc != 0:
        res["build_ok"] = False
        # try to find which theorems the errors fall into (best effort: line numbers)
        res["failed"] = [{"theorem": "(module)", "why": "lake build failed", "detail": out[-2000:]}]
    bad = source_audit()
    if bad:
        res["failed"].append({"theorem": "(source audit)", "why": "forbidden construct", "detail": bad[:20]})
    if not res["build_ok"]:
        return res
    os.makedirs(os.path.join(LEAN, "Audit"), exist_ok=True)
    ap = os.path.join(LEAN, "Audit", pid + ".lean")
    with open(ap, "w") as f:
        f.write(f"import {module}\n")
        for m in xmods:
            f.write(f"import {m}\n")
        for t in theorems:
            f.write(f"#print axioms {t['theorem']}\n")
    rc, out = run(["lake", "env", "lean", ap], cwd=LEAN, timeout=1800)
    # parse: "'X' depends on axioms: [a, b]" / "'X' does not depend on any axioms"
    flat = re.sub(r"\s+", " ", out)
    for t in theorems:
        name = t["theorem"]
        m = re.search(r"'" + re.escape(name) + r"' (does not depend on any axioms|depends on axioms: \[([^\]]*)\])", flat)
        if not m:
            res["failed"].append({"theorem": name, "why": "not found / did not elaborate", "detail": out[-1500:]})
            continue
        axs = set() if m.group(2) is None else {a.strip() for a in m.group(2).split(",") if a.strip()}
        res["axioms"][name] = sorted(axs)
        extra = axs - ALLOWED_AXIOMS
        if extra:
            res["failed"].append({"theorem": name, "why": "inadmissible axioms", "detail": sorted(extra)})
        else:
            res["discharged"] += 1
    if tier == "thorough" and not res["failed"]:
        rc, out = run(["lake", "env", "leanchecker", module] + xmods, cwd=LEAN, timeout=3600)
        res["leanchecker"] = "ok" if rc == 0 else out[-1500:]
        if rc != 0:
            res["failed"].append({"theorem": "(leanchecker)", "why": "kernel re-check failed", "detail": out[-1500:]})
    return res


# ----------------------------------------------------------------------------- build harness

def build_harness():
    lock_src = "/repo/Cargo.lock"
    lock_dst = os.path.join(HARNESS, "Cargo.lock")
    if not os.path.exists(lock_dst) and os.path.exists(lock_src):
        shutil.copy(lock_src, lock_dst)
    rc, out = run(["cargo", "build", "--release", "--offline"], cwd=HARNESS, timeout=3600)
    return rc == 0, out[-6000:]


# ----------------------------------------------------------------------------- supervised runs

def _limits():
    try:
        resource.setrlimit(resource.RLIMIT_AS, (2 << 30, 2 << 30))
    except Exception:
        pass


# After this many HANG/ABORT verdicts of the implementation in one run the exploration stops early:
# the violation is established (each verdict is a failing input), and a change that makes a parser
# spin on a whole class of inputs would otherwise cost stall_s seconds per request.
CRASH_BUDGET = 24
_crashes = {"n": 0}
_crash_lock = threading.Lock()
SKIPPED = "SKIPPED-AFTER-CRASHES"


def supervised(cmd, req_lines, stall_s, tag):
    """Feed req_lines to cmd (one response line per request). A crash or stall marks the request
    after the last answered one as ABORT/HANG and restarts behind it."""
    out_all = []
    start = 0
    n = len(req_lines)
    tmpdir = tempfile.mkdtemp(prefix="sup", dir=WORK)
    try:
        while start < n:
            if _crashes["n"] >= CRASH_BUDGET:
                out_all.extend([SKIPPED] * (n - len(out_all)))
                break
            rq = os.path.join(tmpdir, "rq")
            ot = os.path.join(tmpdir, "ot")
            with open(rq, "w") as f:
                f.write("\n".join(req_lines[start:]) + "\n")
            with open(rq) as fin, open(ot, "wb") as fout:
                # the address-space limit is for the real code only (the Lean runtime reserves a large
                # address range at start-up and would not run under it)
                p = subprocess.Popen(cmd, stdin=fin, stdout=fout, stderr=subprocess.DEVNULL,
                                     preexec_fn=_limits if tag == "impl" else None)
                last_size, last_change = -1, time.time()
                verdict = None
                while True:
                    try:
                        p.wait(timeout=0.25)
                        break
                    except subprocess.TimeoutExpired:
                        sz = os.path.getsize(ot)
                        if sz != last_size:
                            last_size, last_change = sz, time.time()
                        elif time.time() - last_change > stall_s:
                            p.kill()
                            p.wait()
                            verdict = "HANG"
                            break
            data = open(ot, "rb").read().decode("utf-8", "replace")
            lines = data.split("\n")
            complete = lines[:-1]  # last element is '' or a partial line
            out_all.extend(complete)
            if len(out_all) >= n:
                break
            if verdict is None:
                verdict = "ABORT"
            out_all.append(f"{verdict}\t#FAIL:{verdict.lower()} ({tag})")
            with _crash_lock:
                _crashes["n"] += 1
            start = len(out_all)
        return out_all[:n]
    finally:
        shutil.rmtree(tmpdir, ignore_errors=True)


def run_pair(req_lines, stall_s):
    """returns (impl_lines, model_lines)"""
    n = len(req_lines)
    if n == 0:
        return [], []
    k = max(1, min(NCPU, n // 200 + 1))
    bounds = [(i * n // k, (i + 1) * n // k) for i in range(k)]
    model_ok = os.path.exists(MODEL_BIN)
    with ThreadPoolExecutor(max_workers=2 * k) as ex:
        fi = [ex.submit(supervised, [HARNESS_BIN, "worker"], req_lines[a:b], stall_s, "impl") for a, b in bounds]
        fm = [ex.submit(supervised, [MODEL_BIN], req_lines[a:b], max(stall_s, 30), "model") for a, b in bounds] if model_ok else []
        impl = [l for f in fi for l in f.result()]
        model = [l for f in fm for l in f.result()] if model_ok else None
    return impl, model


# ----------------------------------------------------------------------------- classify

def split_impl(line):
    i = line.find("\t#FAIL:")
    if i < 0:
        return line, None
    return line[:i], line[i + 7:]


def split_model(line):
    i = line.find("\t!")
    if i < 0:
        return line, []
    return line[:i], [t for t in line[i + 2:].split(",") if t]


def _visible(t):
    """escape invisible / look-alike characters (BOM, NBSP, other Unicode spaces, controls)"""
    import unicodedata
    return "".join(c if c == " " or unicodedata.category(c) not in ("Cf", "Zs", "Zl", "Zp", "Cc", "Co", "Cn")
                   else "\\u%04x" % ord(c) for c in t)


def readable(req):
    """decode x<hex> args for humans"""
    def dec(tok):
        if re.fullmatch(r"x([0-9a-f]{2})*", tok):
            try:
                return bytes.fromhex(tok[1:]).decode("utf-8")
            except Exception:
                return tok
        return tok
    parts = req.split("\t")
    out = [parts[0]]
    for a in parts[1:]:
        out.append(re.sub(r"x[0-9a-f]*", lambda m: _visible(json.dumps(dec(m.group(0)), ensure_ascii=False)), a) if a else '""')
    return " ".join(out)


def write_replay(pid, kind, req, impl, model, extra=None):
    os.makedirs(REPLAYS, exist_ok=True)
    h = hashlib.sha1((kind + req).encode()).hexdigest()[:12]
    path = os.path.join(REPLAYS, f"{pid}-{kind}-{h}.json")
    d = {"property": pid, "kind": kind, "request": req, "readable": readable(req) if req else None,
         "impl_response": impl, "model_response": model}
    if extra:
        d.update(extra)
    json.dump(d, open(path, "w"), indent=1, ensure_ascii=False)
    return path


def main(argv):
    import argparse
    ap = argparse.ArgumentParser()
    ap.add_argument("pid")
    ap.add_argument("--tier", default=os.environ.get("VERIF_TIER", "quick"))
    ap.add_argument("--seed", type=int, default=int(os.environ.get("VERIF_SEED", "0") or 0))
    ap.add_argument("--replay")
    ap.add_argument("--skip-prove", action="store_true", help="development only")
    a = ap.parse_args(argv)
    pid, tier, seed = a.pid, a.tier, a.seed
    if tier not in ("quick", "thorough"):
        tier = "quick"
    t0 = time.time()
    props = load_props()
    if pid not in props:
        print(f"unknown property {pid}")
        return 2
    cfg = props[pid]
    os.makedirs(WORK, exist_ok=True)
    os.makedirs(EVID, exist_ok=True)
    findings = [f for f in load_findings() if f.get("property") == pid]
    open_findings = {f["id"]: f for f in findings if f.get("status") == "open"}

    # 1 translate
    trans_info = None
    if cfg.get("translate"):
        rc, out = run([sys.executable, os.path.join(VERIF, "tools", "translate.py")] + cfg["translate"], cwd=VERIF, timeout=600)
        trans_info = {"rc": rc, "log": out[-3000:]}
        if rc != 0:
            log("translate failed:\n" + out)

    # 2 prove
    if a.skip_prove:
        pr = {"obligations": len(cfg["theorems"]), "discharged": len(cfg["theorems"]), "failed": [], "build_ok": True, "log": "skipped", "axioms": {}}
    else:
        pr = prove(pid, cfg, tier)
    for f in pr["failed"]:
        log("PROOF OBLIGATION FAILED:", json.dumps(f)[:3000])

    # 3 build harness
    ok, blog = build_harness()
    if not ok:
        # the harness no longer compiles against /repo: nothing can be run; that is a broken
        # correspondence, reported as such
        path = write_replay(pid, "build", "", None, None, {"theorem_or_relation": "harness build against /repo", "log": blog})
        print(f"VIOLATION property={pid} replay={path} no-failing-input-found")
        write_evidence(pid, tier, seed, cfg, pr, 0, 0, [], 0, 0, False, time.time() - t0, 1, {"harness_build": "failed"})
        return 1

    # 4 requests
    if a.replay:
        rp = json.load(open(a.replay))
        reqs = [rp["request"]] if rp.get("request") else []
    else:
        reqs = []
        cdir = os.path.join(VERIF, "corpus", pid)
        if os.path.isdir(cdir):
            for fn in sorted(os.listdir(cdir)):
                if fn.endswith(".req"):
                    reqs += [l for l in open(os.path.join(cdir, fn)).read().split("\n") if l and not l.startswith("#")]
        ncorpus = len(reqs)
        # some generators consult the real code (filters, external-codec columns): a change that makes
        # it spin or allocate without bound must end the run with a violation, not hang the check
        try:
            gp = subprocess.run([HARNESS_BIN, "gen", pid, tier, str(seed)], stdout=subprocess.PIPE, stderr=subprocess.STDOUT,
                                text=True, timeout=1200 if tier == "thorough" else 600, env=ENV, preexec_fn=_limits)
            rc, out = gp.returncode, gp.stdout
        except subprocess.TimeoutExpired as e:
            rc, out = 124, "generator timed out (it calls the real code, which did not return)\n" + (e.stdout or "")[-1500:] if isinstance(e.stdout, str) else "generator timed out"
        if rc != 0:
            log("generator failed", out[-2000:])
            print(f"VIOLATION property={pid} replay={write_replay(pid, 'gen', '', None, None, {'log': out[-2000:]})} no-failing-input-found")
            return 1
        reqs += [l for l in out.split("\n") if l]
    stall = 20 if tier == "thorough" else 8
    impl, model = run_pair(reqs, stall)

    # 5/6 compare + classify
    disagreements, oracle_new, oracle_known, resolved = [], [], {}, []
    nontrivial = set()
    unmodelled = 0
    skipped = 0
    triv = re.compile(cfg.get("trivial_response", r"^$"))
    for i, req in enumerate(reqs):
        iobs, ifail = split_impl(impl[i]) if i < len(impl) else ("MISSING", "missing")
        if iobs == SKIPPED:
            skipped += 1
            continue
        if model is not None and i < len(model):
            mobs, trig = split_model(model[i])
        else:
            mobs, trig = None, []
        if not triv.search(iobs):
            nontrivial.add(req)
        # `*` = the model does not cover this entry point (C02: only the real code is exercised)
        agree = (mobs is None) or (mobs == iobs) or (mobs == "*")
        if mobs == "*":
            unmodelled += 1
        trig_open = [t for t in trig if t in open_findings]
        if not agree:
            if trig_open and ifail is None:
                resolved.append((req, trig_open))
            disagreements.append((req, impl[i], model[i], ifail))
        if ifail is not None:
            if trig_open and agree:
                for t in trig_open:
                    oracle_known.setdefault(t, []).append((req, impl[i]))
            else:
                oracle_new.append((req, impl[i], model[i] if model is not None and i < len(model) else None, ifail))

    # what was actually generated: operations, sizes, response classes of the real code
    from collections import Counter
    ops, sizes, classes = Counter(), Counter(), Counter()
    buckets = [(0, "0"), (2, "1-2"), (4, "3-4"), (8, "5-8"), (16, "9-16"), (64, "17-64"), (256, "65-256"), (4096, "257-4096")]
    for i, req in enumerate(reqs):
        parts = req.split("\t")
        op = parts[0] + ("." + parts[1] if parts[0] == "total" and len(parts) > 1 else "")
        ops[op] += 1
        n = sum(len(a) // 2 if a[:1] == "x" else len(a) for a in parts[1:])   # decoded argument bytes (hex args halved)
        sizes[next((lab for lim, lab in buckets if n <= lim), ">4096")] += 1
        if i < len(impl):
            first = split_impl(impl[i])[0].split(" ", 1)[0][:14]
            if re.fullmatch(r"x[0-9a-f]*", first):
                first = "x<text>"
            classes[first] += 1
    distribution = {"operations": dict(ops.most_common(40)),
                    "argument_bytes": {lab: sizes[lab] for _, lab in buckets + [(0, ">4096")] if sizes[lab]},
                    "impl_response_first_token": dict(classes.most_common(16)),
                    "corpus_requests": ncorpus if not a.replay else 0,
                    "nontrivial_share": round(len(nontrivial) / max(1, len(reqs)), 4)}

    violations = 0
    lines = []
    for fid, cases in sorted(oracle_known.items()):
        lines.append(f"KNOWN-FINDING: property={pid} {fid} {open_findings[fid]['what']} ({len(cases)} cases, e.g. {readable(min(cases, key=lambda c: len(c[0]))[0])[:160]})")
    if oracle_new:
        req, il, ml, why = min(oracle_new, key=lambda c: len(c[0]))
        path = write_replay(pid, "oracle", req, il, ml, {"why": why, "count": len(oracle_new)})
        lines.append(f"VIOLATION property={pid} replay={path}")
        violations += 1
        log(f"oracle failures outside known findings: {len(oracle_new)}; smallest: {readable(req)[:300]} :: {why[:300]}")
    elif disagreements:
        req, il, ml, why = min(disagreements, key=lambda c: len(c[0]))
        path = write_replay(pid, "correspondence", req, il, ml,
                            {"theorem_or_relation": f"model = implementation on the observables of {pid} ({cfg.get('relation', 'line protocol')})",
                             "count": len(disagreements)})
        lines.append(f"VIOLATION property={pid} replay={path} no-failing-input-found")
        violations += 1
        log(f"model/implementation disagreements: {len(disagreements)}; smallest: {readable(req)[:300]}\n impl : {il[:300]}\n model: {ml[:300]}")
    if pr["failed"] and not oracle_new:
        # a proof obligation no longer checks; no concrete failing input was found by the search above
        path = write_replay(pid, "obligation", "", None, None, {"theorem_or_relation": pr["failed"][0].get("theorem"), "failed": pr["failed"]})
        if not disagreements:
            lines.append(f"VIOLATION property={pid} replay={path} no-failing-input-found")
            violations += 1
    if model is None:
        path = write_replay(pid, "model", "", None, None, {"theorem_or_relation": "model driver did not build", "log": pr.get("log")})
        if not violations:
            lines.append(f"VIOLATION property={pid} replay={path} no-failing-input-found")
            violations += 1
    for l in lines:
        print(l)
    samples = [{"request": readable(r)[:400], "impl": impl[i][:300] if i < len(impl) else None}
               for i, r in list(enumerate(reqs))[:: max(1, len(reqs) // 6)][:8]]
    extra = {"open_findings_hit": {k: len(v) for k, v in oracle_known.items()},
             "finding_resolved_candidates": len(resolved),
             "model_disagreements": len(disagreements),
             "oracle_failures_new": len(oracle_new),
             "requests_answered_by_impl_only": unmodelled,
             "requests_skipped_after_crash_budget": skipped,
             "input_distribution": distribution,
             "axioms": pr.get("axioms"), "proof_failures": pr["failed"][:5]}
    if trans_info:
        extra["translator"] = trans_info
    if "leanchecker" in pr:
        extra["leanchecker"] = pr["leanchecker"]
    write_evidence(pid, tier, seed, cfg, pr, len(reqs), len(nontrivial), samples,
                   (len(reqs) - unmodelled) if model is not None else 0, len(disagreements),
                   bool(cfg.get("exhaustive_note")), time.time() - t0, violations, extra)
    log(f"{pid} {tier}: {len(reqs)} cases, {len(disagreements)} disagreements, {len(oracle_new)} new oracle failures, "
        f"{sum(len(v) for v in oracle_known.values())} known-finding cases, proofs {pr['discharged']}/{pr['obligations']}, {time.time()-t0:.1f}s")
    return 1 if violations else 0


def write_evidence(pid, tier, seed, cfg, pr, evals, nontriv, samples, traces, disagreements, exhaustive, wall, violations, extra):
    cov = {
        "obligations": pr["obligations"], "discharged": pr["discharged"],
        "checker_cmd": f"cd /verif/lean && lake build {cfg['module']} && lake env lean Audit/{pid}.lean  (#print axioms per theorem; thorough: lake env leanchecker {cfg['module']})",
        "trusted_base": cfg.get("trusted_base", []) + [
            "Lean 4.33 kernel; admitted axioms: propext, Classical.choice, Quot.sound only (audited per theorem)",
            "hand-written model <-> /repo tie: this run's correspondence (bounded, seeded) via /verif/harness",
        ],
        "theorems": [t["theorem"].split(".")[-1] + " [" + t.get("kind", "full") + "]" for t in cfg["theorems"]],
        "evaluations": evals, "distinct_nontrivial": nontriv,
        "rule": cfg.get("rule", ""), "samples": samples,
        "traces_validated_against_impl": traces, "disagreements_checked": disagreements,
        "exhaustive": exhaustive,
    }
    if cfg.get("exhaustive_note"):
        cov["exhaustive_note"] = cfg["exhaustive_note"]
    if cfg.get("partial"):
        cov["partial"] = cfg["partial"]
    cov.update(extra)
    ev = {"property_id": pid, "tier": tier, "seed": seed, "level": "proof", "coverage": cov,
          "assumptions": cfg.get("assumptions", []), "wall_s": round(wall, 2), "violations": violations}
    json.dump(ev, open(os.path.join(EVID, pid + ".json"), "w"), indent=1, ensure_ascii=False)
