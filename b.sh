#!/bin/bash
cd /tmp/proof/p2/lean && lake build "$1" 2>&1 | grep -v "Replayed\|conda" | awk '/^warning:/{skip=1} /^error:/{skip=0} /^✔|^✖|^Build|^Some|^-/{skip=0} !skip' | head -${2:-80}
